------------------------------- MODULE StreamCore -------------------------------
(* C17 -- how the handlers turn runner chunks into responses.                    *)
(*                                                                              *)
(* A model output is a sequence of pieces.  Atoms: a tool-call object k consists *)
(* of three pieces <<k,1>> <<k,2>> <<k,3>> (it parses as JSON only when all      *)
(* three are there, in order); a text run is the piece <<0, n>>.  The runner     *)
(* delivers the output as chunks = contiguous groups of pieces (a chunk boundary *)
(* may fall inside an object), then a final record without content, or it fails  *)
(* after some chunk.                                                             *)
(*   NonStream(..)  ChatHandler with stream=false: concatenate, parse once       *)
(*   Stream(..)     ChatHandler with stream=true and tools: accumulate, emit and *)
(*                  RESET on a successful parse, flush at the end only if no     *)
(*                  call was sent                                                *)
(* Result = [calls : sequence of object ids, text : sequence of pieces].         *)
EXTENDS Integers, Sequences, FiniteSets, TLC

RECURSIVE Join(_)
Join(cs) == IF cs = <<>> THEN <<>> ELSE Head(cs) \o Join(Tail(cs))

\* objects that are complete in a buffer, in order of appearance
Complete(buf) ==
  LET I == {i \in 1..(Len(buf) - 2) : buf[i][1] # 0 /\ buf[i][2] = 1 /\ buf[i + 1] = <<buf[i][1], 2>> /\ buf[i + 2] = <<buf[i][1], 3>>}
      RECURSIVE Ord(_)
      Ord(S) == IF S = {} THEN <<>> ELSE LET m == CHOOSE x \in S : \A y \in S : x <= y IN <<buf[m][1]>> \o Ord(S \ {m})
  IN Ord(I)
\* what is left of a buffer after its last complete object
Rest(buf) ==
  LET I == {i \in 1..(Len(buf) - 2) : buf[i][1] # 0 /\ buf[i][2] = 1 /\ buf[i + 1] = <<buf[i][1], 2>> /\ buf[i + 2] = <<buf[i][1], 3>>}
  IN IF I = {} THEN buf ELSE SubSeq(buf, (CHOOSE x \in I : \A y \in I : y <= x) + 3, Len(buf))

\* ---- stream = false (with or without tools), and stream = true without tools: nothing is held back
NonStream(chunks, tools) ==
  LET whole == Join(chunks) IN
  IF tools /\ Complete(whole) # <<>> THEN [calls |-> Complete(whole), text |-> <<>>]
  ELSE [calls |-> <<>>, text |-> whole]

\* ---- stream = true with tools.  keepRest = FALSE is the pinned code (sb.Reset() after a successful
\* parse throws away the beginning of the next object: StreamReset_DropsPartialObject)
RECURSIVE StreamLoop(_, _, _, _, _)
StreamLoop(chunks, i, buf, calls, keepRest) ==
  IF i > Len(chunks)
    THEN [calls |-> calls, text |-> IF calls = <<>> THEN buf ELSE <<>>]          \* final record
  ELSE LET b2 == buf \o chunks[i] IN
       IF Complete(b2) # <<>>
         THEN StreamLoop(chunks, i + 1, IF keepRest THEN Rest(b2) ELSE <<>>, calls \o Complete(b2), keepRest)
         ELSE StreamLoop(chunks, i + 1, b2, calls, keepRest)
Stream(chunks, tools, keepRest) ==
  IF ~tools THEN [calls |-> <<>>, text |-> Join(chunks)] ELSE StreamLoop(chunks, 1, <<>>, <<>>, keepRest)

\* the situation in which the pinned code loses a call: after some chunk the buffer holds a complete
\* object followed by the beginning of another one
RECURSIVE SplitAfterObject(_, _, _)
SplitAfterObject(chunks, i, buf) ==
  IF i > Len(chunks) THEN FALSE
  ELSE LET b2 == buf \o chunks[i] IN
       IF Complete(b2) # <<>>
         THEN (\E j \in 1..Len(Rest(b2)) : Rest(b2)[j][1] # 0) \/ SplitAfterObject(chunks, i + 1, <<>>)
         ELSE SplitAfterObject(chunks, i + 1, b2)
===============================================================================

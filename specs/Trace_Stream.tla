------------------------------- MODULE Trace_Stream -------------------------------
(* C17 -- judges what the eight presentations of one model output delivered        *)
(* (records written by harness/server/vf_stream_test.go).                          *)
EXTENDS StreamCore, Json, IOUtils

VARIABLES l, nbad
Trace == ndJsonDeserialize(IOEnv.VF_TRACE)
Init == l = 1 /\ nbad = 0

Same(a, b) == a.text = b.text /\ a.calls = b.calls
SameAll(a, b) == Same(a, b) /\ a.finish = b.finish /\ a.prompt = b.prompt /\ a.eval = b.eval
OneFinal(o) == o.status = 200 /\ o.finals = 1 /\ o.errors = 0
OneError(o) == o.finals = 0 /\ (o.errors = 1 \/ (o.errors = 0 /\ o.status >= 500))
Has(e, k) == k \in DOMAIN e.obs
Names(calls) == [i \in 1..Len(calls) |-> IF calls[i] = 1 THEN "f1" ELSE "f2"]

Case(e) ==
  LET o == e.obs
      pres == DOMAIN o
      ctx == IF e.tools /\ SplitAfterObject(e.chunks, 1, <<>>) THEN {"chunk-ends-after-an-object-inside-the-next"} ELSE {}
      ok ==
           (IF \E k \in pres : ~OneFinal(o[k]) THEN {"not-exactly-one-final-message"} ELSE {})
      \cup (IF ~SameAll(o.chat_s, o.chat_ns) THEN {"native-stream-differs-from-non-stream"} \cup ctx ELSE {})
      \cup (IF ~Same(o.oai_ns, o.chat_ns) \/ o.oai_ns.prompt # o.chat_ns.prompt \/ o.oai_ns.eval # o.chat_ns.eval
              THEN {"openai-differs-from-native"} ELSE {})
      \cup (IF ~Same(o.oai_s, o.oai_ns) \/ o.oai_s.finish # o.oai_ns.finish THEN {"openai-stream-differs-from-non-stream"} \cup ctx ELSE {})
      \cup (IF Has(e, "gen_ns") /\ ~SameAll(o.gen_s, o.gen_ns) THEN {"generate-stream-differs-from-non-stream"} ELSE {})
      \cup (IF Has(e, "gen_ns") /\ (~Same(o.oaic_ns, o.gen_ns) \/ ~Same(o.oaic_s, o.gen_ns)) THEN {"openai-completions-differ-from-generate"} ELSE {})
      offenders == {k \in pres : ~OneError(o[k])}
      \* the OpenAI-compatible stream writers turn a mid-stream error line into an empty chunk
      swallowed == {k \in offenders : k \in {"oai_s", "oaic_s"} /\ o[k].errors = 0 /\ o[k].finals = 0 /\ o[k].status = 200}
      failed ==
           (IF offenders \ swallowed # {} THEN {"failed-run-does-not-end-with-exactly-one-error"} ELSE {})
      \cup (IF swallowed # {} THEN {"openai-stream-ends-without-error-or-final"} ELSE {})
      \* fail = -2: the runner dies after its final record; only the presentations that still need it
      \* (generate tokenizes prompt + response for the context field) must report an error
      late == {k \in pres \cap {"gen_ns", "gen_s", "oaic_ns", "oaic_s"} : ~OneError(o[k])}
      flags == IF e.fail >= 0 THEN failed
               ELSE IF e.fail = 0 - 2 THEN (IF late \ swallowed # {} THEN {"failed-run-does-not-end-with-exactly-one-error"} ELSE {})
                                           \cup (IF late \cap swallowed # {} THEN {"openai-stream-ends-without-error-or-final"} ELSE {})
               ELSE ok
      want == NonStream(e.chunks, e.tools)
      drift == IF e.fail < 0 /\ o.chat_ns.calls # Names(want.calls) THEN {"non-stream-result-differs-from-StreamCore"} ELSE {}
  IN /\ (flags # {}) => PrintT(<<"VFBAD", l, e.id, flags>>)
     /\ (drift # {}) => PrintT(<<"VFDRIFT", l, e.id, drift>>)
     /\ nbad' = IF flags # {} THEN nbad + 1 ELSE nbad
Step == /\ l <= Len(Trace) /\ l' = l + 1 /\ Case(Trace[l])
Accepted == TLCGet("stats").diameter = Len(Trace) + 1
===============================================================================

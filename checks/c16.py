"""C16 -- the memory estimate never plans more on a GPU than it has free.

MemEstimateCore.tla transcribes EstimateGPULayers/PredictServerFit and states C16 on a result; TLC
checks C16 on the transcription for every configuration in scope and enumerates the configurations;
harness/llm runs the real estimator (real GGML built with WriteGGUF+LoadModel) and logs derived
inputs + results; Trace_MemEstimate.tla judges the real results on the logged inputs.
"""
import json
import time

import vf

PROP = "C16"
MC_BODY = """
INIT Init
NEXT Next
INVARIANT Holds
CONSTRAINT Emit
CHECK_DEADLOCK FALSE
"""
GEN_BODY = """
INIT Init
NEXT Next
CONSTRAINT Emit
CHECK_DEADLOCK FALSE
"""


def consts(maxblocks, maxgpus, grid, mins="{0, 2000}", tensors="{4000, 10000}", overheads="{0, 5000}", outs="{0, 3000}",
           gzos="{0, 3500}"):
    return {"MaxBlocks": maxblocks, "MaxGpus": maxgpus, "TensorSizes": tensors, "Kv": 8192, "GQA": 2,
            "FreeGrid": vf.tla_set(grid), "Mins": mins, "Overheads": overheads, "Outs": outs,
            "Gzos": gzos}


def run(tier="quick", seed=1, replay=None):
    t0 = time.time()
    res = vf.Result(PROP)
    quick = tier == "quick"
    cov = dict(states=0, transitions=0, traces_validated_against_impl=0, samples=[], evaluations=0,
               distinct_nontrivial=0)
    with vf.scratch("vf-c16-") as wd:
        if not replay:
            # unbounded in the sizes: the guard of the placement loop as an inductive invariant (Apalache, 4 GPUs, all integers)
            obligations = [("Init", "IndInv", 0), ("IndInit", "IndInv", 1), ("IndInit", "C16", 0)]
            for init, inv, length in obligations:
                r = vf.apalache("MemPlaceInd", wd, init, inv, length)
                if not r["ok"]:
                    raise vf.Inconclusive(f"Apalache did not discharge {init} => {inv} (length {length}) of MemPlaceInd.tla:\n" + r["out"][-1500:])
            cov["inductive_invariant"] = {"module": "MemPlaceInd.tla", "tool": "apalache-mc 0.58", "gpus": 4, "sizes": "all naturals",
                                          "obligations": [f"{a} => {b} (length {c})" for a, b, c in obligations]}
        if replay:
            cases = [json.loads(l) for l in open(replay) if l.strip()]
        else:
            grid = list(range(0, 96001, 12000)) if quick else list(range(0, 96001, 6000))
            cfg = vf.write_cfg(wd, "MC_MemEstimate.cfg", consts(2, 2, grid), MC_BODY)
            vals, r = vf.gen_exhaustive("MemEstimate", cfg, wd, timeout=3000)
            cov["states"], cov["transitions"] = r["distinct"], r["generated"]
            cov["exhaustive"] = True
            cov["bounds"] = (f"blocks <= 2 with tensor sizes {{4000,10000}}, 1-2 GPUs with free memory on a grid of "
                             f"{len(grid)} values x minimum {{0,2000}}, overhead {{0,5000}}, output layer {{absent,3000}}, "
                             "projector {0,3500}, num_gpu {-1,0,1,blocks,blocks+1,999}")
            # three GPUs and a projector larger than a layer: the projector must be charged to a GPU that was admitted with it
            cfg3 = vf.write_cfg(wd, "MC_MemEstimate3.cfg", consts(2, 3, [0, 24000, 48000, 72000, 96000], "{0}", "{10000}", "{0}", "{3000}", "{0, 30000}"), MC_BODY)
            vals3, r3 = vf.gen_exhaustive("MemEstimate", cfg3, wd, timeout=3000)
            vals += vals3
            cov["states"] += r3["distinct"]
            cov["transitions"] += r3["generated"]
            cov["bounds"] += "; 1-3 GPUs on a 5-value grid with a 30000-byte projector and 18192-byte layers"
            fine = [x + d for x in range(0, 120001, 6000) for d in (0, 1, 4000)]
            cfg = vf.write_cfg(wd, "Sim_MemEstimate.cfg", consts(4, 4, fine, "{0, 2000, 457}", gzos="{0, 3500, 30000}"), GEN_BODY)
            sims, _ = vf.gen_simulate("MemEstimate", cfg, wd, num=50 if quick else 3000, depth=6, seed=seed)
            cases = vf.dedupe(vals + sims)
            # an architecture whose full-offload graph is larger than the partial one (llama, num_ctx 8), one GPU, and the free
            # memory swept across every placement threshold (sum of a run of layers + either graph + output + projector + overhead)
            import zlib
            sweeps = [dict(c, arch="llama", ctx=8, sweep=True) for c in vals if len(c["gpus"]) == 1 and c["gpus"][0]["free"] == 24000]
            if quick:
                sweeps = [c for c in sweeps if (zlib.crc32(json.dumps(c, sort_keys=True).encode()) + seed) % 4 == 0]
            cases += sweeps
            cov["bounds"] += f"; {len(sweeps)} one-GPU llama-architecture cases (full graph > partial graph) with free memory at, just below and just above every placement threshold"
            for i, c in enumerate(cases):
                c["id"] = i + 1
            cases += vf.load_witnesses(PROP)
        recs, v, _ = vf.replay_and_validate(wd, cases, "./llm", "TestVFMemReplay", ["llm"], "Trace_MemEstimate",
                                            go_timeout=1800, tlc_timeout=3000)
        by_id = {str(c["id"]): c for c in cases}
        cov["traces_validated_against_impl"] = len(recs)
        cov["evaluations"] = len(recs)
        cov["distinct_nontrivial"] = len({json.dumps([r["free"], r["min"], r["L"], r["out"], r["gzo"], r["ov"], r["ng"]])
                                          for r in recs if 0 < r["layers"] < len(r["L"]) + 1})
        cov["rule"] = ("case = (block sizes, output, projector, overhead, num_gpu, GPU list); non-trivial = partial "
                       "offload (some but not all layers placed); distinct by value")
        cov["samples"] = recs[:1] + recs[len(recs) // 2:len(recs) // 2 + 1] + recs[-1:]
        shown = {}
        for ln, cid, flags in v["bad"]:
            key = tuple(flags)
            shown[key] = shown.get(key, 0) + 1
            if shown[key] > 2 or len(res.violations) >= 8:
                continue
            p = vf.save_replay(PROP, f"mem-{tier}-{seed}-{cid.replace('/', '_')}.ndjson", json.dumps(by_id.get(cid.split("/")[0])) + "\n")
            res.violation(f"{flags}: {json.dumps(recs[ln - 1])[:600]}", p)
        cov["violating_cases"] = len(v["bad"])
        cov["violation_kinds"] = {",".join(k): n for k, n in shown.items()}
        if v["drift"]:
            res.note(f"drift: real estimator differs from the transcription (no C16 clause broken) in {len(v['drift'])} cases")
        cov["drift_cases"] = len(v["drift"])
        cov["checker_cmd"] = "tlc MemEstimate.tla (MC_MemEstimate.cfg) ; tlc Trace_MemEstimate.tla"
    vf.write_evidence(PROP, tier, seed, "model_checking", cov, time.time() - t0, violations=len(res.violations),
                      assumptions=["one GPU library (cuda), architecture without a dedicated graph formula",
                                   "sizes below 2^31 (TLC integers)", "with num_gpu >= 0, 'all layers' means the layers requested"])
    return res.finish()

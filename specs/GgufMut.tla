-------------------------------- MODULE GgufMut --------------------------------
(* C10 -- untrusted model files.  A GGUF file is a stream of fields; the decoder  *)
(* trusts none of them.  This module names the fields of a small base file (3     *)
(* key/values + a declared parameter count, 2 tensors), the value classes every length / count / type / shape  *)
(* / offset field is driven through, and enumerates single and double mutations, *)
(* truncations, versions and byte orders for the replay harness.  The only        *)
(* acceptable outcomes are defined in Trace_GgufDecode: a decoded model or an     *)
(* error, in bounded time and with memory proportional to the input.              *)
EXTENDS Integers, Sequences, FiniteSets, TLC, Json

CONSTANTS Versions, Orders, MaxMuts, Pairs   \* Pairs: "none" | "all"

Len64 == {"0", "1", "exact+1", "rem+1", "2^31", "2^32-1", "2^63-1", "2^63", "2^64-1"}
Type32 == {"0", "4", "8", "9", "10", "12", "13", "2^32-1"}
Fields ==
  [hdr_ntensors |-> Len64, hdr_nkv |-> Len64,
   kv0_keylen |-> Len64, kv0_type |-> Type32, kv0_strlen |-> Len64,
   kv1_keylen |-> Len64, kv1_type |-> Type32, kv1_arrtype |-> Type32, kv1_arrcount |-> Len64, kv1_s0len |-> Len64,
   kv2_keylen |-> Len64, kv2_type |-> Type32, kv2_value |-> {"0", "1", "3", "2^31", "2^32-1"},
   kv3_type |-> {"4", "8", "11", "12"},     \* general.parameter_count declared in another type (value written in that type)
   t0_namelen |-> Len64, t0_dims |-> {"0", "1", "4", "5", "2^16", "2^32-1"}, t0_shape0 |-> {"0", "2^32", "2^63", "2^64-1"},
   t0_kind |-> {"1", "2", "31", "2^32-1"}, t0_offset |-> {"1", "2^63", "2^64-1"},
   t1_namelen |-> Len64, t1_dims |-> {"0", "4", "2^32-1"}, t1_shape0 |-> {"wrap-to-0", "wrap-to-8", "2^63", "2^64-1"}, t1_kind |-> {"2", "31"}, t1_offset |-> {"1", "2^63-1", "2^64-1"},
   cut |-> {"hdr", "kv0.key", "kv0.val", "kv1.arr", "kv1.mid", "kv1.mid+3", "kv2", "t0.name", "t0.shape", "t1", "pad", "data", "data-1"}]
Names == DOMAIN Fields
Muts == {[f |-> f, v |-> v] : f \in Names, v \in UNION {Fields[x] : x \in Names}} \cap
        UNION {{[f |-> f, v |-> v] : v \in Fields[f]} : f \in Names}

\* big = TRUE: the token array has 1100 entries, more than the default limit for collecting arrays,
\* so that the decoder skips (discards) the strings instead of storing them
VARIABLES ver, order, muts, big
Init == ver \in Versions /\ order \in Orders /\ muts = {} /\ big \in BOOLEAN
Next == /\ Cardinality(muts) < MaxMuts
        /\ (Cardinality(muts) = 0 \/ Pairs = "all")
        /\ \E m \in Muts : (\A x \in muts : x.f # m.f) /\ muts' = muts \cup {m}
        /\ UNCHANGED <<ver, order, big>>
Emit == PrintT(ToJson([ver |-> ver, be |-> order = "be", muts |-> muts, big |-> big]))
===============================================================================

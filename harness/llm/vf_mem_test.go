package llm

// /verif harness for C16: enumerated (model, options, GPU list) configurations are run through the
// real EstimateGPULayers and PredictServerFit; the inputs the estimator derives (layer sizes with
// their kv share, graph sizes, output layer, projector) and the result are recorded for
// specs/Trace_MemEstimate.tla.

import (
	"bufio"
	"bytes"
	"encoding/json"
	"fmt"
	"os"
	"path/filepath"
	"strconv"
	"strings"
	"testing"

	"github.com/ollama/ollama/api"
	"github.com/ollama/ollama/discover"
	"github.com/ollama/ollama/fs/ggml"
)

type vfMemCase struct {
	Id   int   `json:"id"`
	Blk  []int `json:"blk"`
	Gpus []struct {
		Free int `json:"free"`
		Min  int `json:"min"`
	} `json:"gpus"`
	Opt struct {
		Out int `json:"out"`
		Gzo int `json:"gzo"`
		Ov  int `json:"ov"`
		Ng  int `json:"ng"`
	} `json:"opt"`
}

func vfMemWrite(path string, kv ggml.KV, ts []ggml.Tensor) error {
	f, err := os.Create(path)
	if err != nil {
		return err
	}
	defer f.Close()
	return ggml.WriteGGUF(f, kv, ts)
}

func vfMemTensor(name string, n int) ggml.Tensor {
	return ggml.Tensor{Name: name, Kind: 24, Shape: []uint64{uint64(n)}, WriterTo: bytes.NewReader(make([]byte, n))}
}

type vfMemModel struct {
	f *ggml.GGML
}

func vfMemLoadModel(dir string, blk []int, out int) (*ggml.GGML, error) {
	var ts []ggml.Tensor
	for i, n := range blk {
		ts = append(ts, vfMemTensor(fmt.Sprintf("blk.%d.w.weight", i), n))
	}
	if out > 0 {
		ts = append(ts, vfMemTensor("output.weight", out))
	}
	path := filepath.Join(dir, fmt.Sprintf("m-%v-%d.gguf", blk, out))
	err := vfMemWrite(path, ggml.KV{
		"general.architecture":       "vf",
		"vf.context_length":          uint32(2048),
		"vf.embedding_length":        uint32(2),
		"vf.block_count":             uint32(len(blk)),
		"vf.attention.head_count":    uint32(2),
		"vf.attention.head_count_kv": uint32(1),
		"tokenizer.ggml.tokens":      []string{" "},
	}, ts)
	if err != nil {
		return nil, err
	}
	return LoadModel(path, 0)
}

func vfMemRun(dir string, models map[string]*ggml.GGML, c vfMemCase) (rec map[string]any) {
	rec = map[string]any{"ev": "case", "id": c.Id, "err": "", "free": []int{}, "min": []int{}, "L": []uint64{}, "out": 0,
		"gP": 0, "gF": 0, "gzo": 0, "ov": c.Opt.Ov, "ng": c.Opt.Ng, "layers": 0, "sizes": []uint64{}, "vram": 0, "total": 0,
		"split": []int{}, "fit": false}
	defer func() {
		if r := recover(); r != nil {
			rec["err"] = fmt.Sprint("panic: ", r)
		}
	}()
	key := fmt.Sprint(c.Blk, c.Opt.Out)
	f := models[key]
	if f == nil {
		var err error
		if f, err = vfMemLoadModel(dir, c.Blk, c.Opt.Out); err != nil {
			rec["err"] = err.Error()
			return
		}
		models[key] = f
	}
	var projectors []string
	if c.Opt.Gzo > 0 {
		p := filepath.Join(dir, fmt.Sprintf("proj-%d.gguf", c.Opt.Gzo))
		if _, err := os.Stat(p); err != nil {
			if err := vfMemWrite(p, ggml.KV{"general.architecture": "clip"}, []ggml.Tensor{vfMemTensor("v.w.weight", c.Opt.Gzo)}); err != nil {
				rec["err"] = err.Error()
				return
			}
		}
		projectors = []string{p}
	}
	os.Setenv("OLLAMA_GPU_OVERHEAD", strconv.Itoa(c.Opt.Ov))
	gpus := make(discover.GpuInfoList, len(c.Gpus))
	free := make([]int, len(c.Gpus))
	mins := make([]int, len(c.Gpus))
	for i, g := range c.Gpus {
		gpus[i].Library = "cuda"
		gpus[i].ID = strconv.Itoa(i)
		gpus[i].FreeMemory = uint64(g.Free)
		gpus[i].TotalMemory = uint64(g.Free) * 2
		gpus[i].MinimumMemory = uint64(g.Min)
		free[i], mins[i] = g.Free, g.Min
	}
	opts := api.DefaultOptions()
	opts.NumCtx = 2048
	opts.NumGPU = c.Opt.Ng
	est := EstimateGPULayers(gpus, f, projectors, opts, 1)
	fit, _ := PredictServerFit(gpus, f, nil, projectors, opts, 1)

	// the inputs the estimator works with, obtained the way it obtains them
	kv, _, _ := f.GraphSize(uint64(opts.NumCtx), uint64(min(opts.NumCtx, opts.NumBatch)), 1, "")
	layers := f.Tensors().GroupLayers()
	L := make([]uint64, len(c.Blk))
	for i := range L {
		blk := layers[fmt.Sprintf("blk.%d", i)]
		L[i] = blk.Size() + kv[i]
	}
	split := []int{}
	if est.TensorSplit != "" {
		for _, s := range strings.Split(est.TensorSplit, ",") {
			n, _ := strconv.Atoi(s)
			split = append(split, n)
		}
	}
	sizes := est.GPUSizes
	if sizes == nil {
		sizes = []uint64{}
	}
	rec["free"], rec["min"], rec["L"] = free, mins, L
	rec["out"], rec["gP"], rec["gF"] = est.memoryLayerOutput, est.graphPartialOffload, est.graphFullOffload
	rec["gzo"] = est.projectorWeights + est.projectorGraph
	rec["layers"], rec["sizes"], rec["vram"], rec["total"], rec["split"], rec["fit"] = est.Layers, sizes, est.VRAMSize, est.TotalSize, split, fit
	return rec
}

func TestVFMemReplay(t *testing.T) {
	inPath, outPath := os.Getenv("VF_IN"), os.Getenv("VF_OUT")
	if inPath == "" || outPath == "" {
		t.Skip("VF_IN / VF_OUT not set")
	}
	t.Setenv("OLLAMA_KV_CACHE_TYPE", "")
	t.Setenv("OLLAMA_FLASH_ATTENTION", "")
	in, err := os.Open(inPath)
	if err != nil {
		t.Fatal(err)
	}
	defer in.Close()
	out, err := os.Create(outPath)
	if err != nil {
		t.Fatal(err)
	}
	defer out.Close()
	w := bufio.NewWriterSize(out, 1<<20)
	defer w.Flush()
	enc := json.NewEncoder(w)
	dir := t.TempDir()
	models := map[string]*ggml.GGML{}
	sc := bufio.NewScanner(in)
	sc.Buffer(make([]byte, 1<<20), 1<<26)
	n := 0
	for sc.Scan() {
		var c vfMemCase
		if err := json.Unmarshal(sc.Bytes(), &c); err != nil {
			t.Fatalf("bad case: %v", err)
		}
		enc.Encode(vfMemRun(dir, models, c))
		n++
	}
	os.Unsetenv("OLLAMA_GPU_OVERHEAD")
	fmt.Printf("VF replayed=%d\n", n)
}

----------------------------- MODULE Trace_KvCells -----------------------------
(* C06 -- cell-level conformance of kvcache.Causal with KvCells.tla: the calls     *)
(* recorded by harness/kvcache/vf_kv_test.go are applied to the model's cells with  *)
(* the operators of KvCells (one per function of causal.go) and after every call    *)
(* the model is compared with the snapshot of the real cache: every cell's          *)
(* sequences and position, every sequence's cell range, and the rows of the key /   *)
(* value tensors of live cells.  Differences are VFDRIFT (the property itself is     *)
(* judged by Trace_Kv.tla on what the tokens were shown).  One run per cache         *)
(* geometry (Cells, Window, CanShift come from the cfg).                            *)
EXTENDS KvCells, IOUtils

VARIABLES l, nbad, c, tid
Trace == ndJsonDeserialize(IOEnv.VF_TRACE)
TInit == l = 1 /\ nbad = 0 /\ tid = 0 /\ c = EmptyCells /\ ref = {} /\ nextId = 1 /\ hist = <<>> /\ cs = EmptyCells
Rng(f) == {f[i] : i \in DOMAIN f}

\* the snapshot's parts, indexed as in the model (JSON arrays are 1-based sequences)
SnapSeqs(sn, i) == Rng(sn.meta[i + 1][2])
SnapPos(sn, i) == sn.meta[i + 1][1]
SnapRng(sn, s) == IF \E r \in Rng(sn.rng) : r[1] = s
                  THEN LET r == CHOOSE r \in Rng(sn.rng) : r[1] = s IN [has |-> TRUE, min |-> r[2], max |-> r[3]]
                  ELSE NoRange
Differs(sn, m) ==
     (IF \E i \in Idx : SnapSeqs(sn, i) # m.meta[i].seqs THEN {"cell-sequences-differ-from-model"} ELSE {})
\cup (IF \E i \in Idx : SnapSeqs(sn, i) # {} /\ SnapPos(sn, i) # m.meta[i].pos THEN {"cell-position-differs-from-model"} ELSE {})
\cup (IF \E s \in SeqIds : SnapRng(sn, s) # m.rng[s] THEN {"cell-range-differs-from-model"} ELSE {})
\cup (IF \E i \in Idx : SnapSeqs(sn, i) # {} /\ m.meta[i].seqs # {} /\ <<sn.dat[i + 1][1], sn.dat[i + 1][2]>> # <<m.dat[i].id, m.dat[i].k>>
        THEN {"tensor-row-differs-from-model"} ELSE {})
\* on the real cache: the row of a live cell holds the entry the cell describes (K = its position)
RowBad(sn) == IF \E i \in Idx : SnapSeqs(sn, i) # {} /\ sn.dat[i + 1][2] # SnapPos(sn, i) THEN {"key-row-does-not-match-cell-position"} ELSE {}

Step ==
  /\ l <= Len(Trace) /\ l' = l + 1 /\ UNCHANGED <<ref, nextId, hist, cs>>
  /\ LET e == Trace[l] IN
       IF e.ev = "reset" THEN c' = EmptyCells /\ nbad' = nbad /\ tid' = e.t
       ELSE IF e.ev = "canresume" THEN
            /\ (CanResumeC(c, e.s, e.p) # e.res) => PrintT(<<"VFDRIFT", l, tid, {"canresume-differs-from-cell-model"}>>)
            /\ c' = c /\ nbad' = nbad /\ tid' = tid
       ELSE IF e.ev \in {"fwd", "copy", "rmtail", "rmmid"} THEN
            LET r == CASE e.ev = "fwd" -> ForwardC(c, e.batch, e.pos, e.ids)
                       [] e.ev = "copy" -> [st |-> CopyPrefixC(c, e.src, e.dst, e.n), err |-> FALSE]
                       [] e.ev = "rmtail" -> RemoveC(c, e.s, e.b, Inf)
                       [] e.ev = "rmmid" -> RemoveC(c, e.s, e.b, e.e)
                d == (IF e.ev # "copy" /\ r.err # e.err THEN {"error-differs-from-cell-model"} ELSE {}) \cup Differs(e.snap, r.st)
                     \* (after a Remove that failed half-way the caller erases the sequence; the state in between is not judged)
                     \cup (IF e.ev # "copy" /\ e.err THEN {} ELSE RowBad(e.snap))
            IN /\ (d # {}) => PrintT(<<"VFDRIFT", l, tid, d>>)
               /\ c' = r.st /\ nbad' = nbad /\ tid' = tid
       ELSE c' = c /\ nbad' = nbad /\ tid' = tid
Accepted == TLCGet("stats").diameter = Len(Trace) + 1
===============================================================================

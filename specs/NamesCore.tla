------------------------------- MODULE NamesCore -------------------------------
(* C13 -- model names and digests as strings over a small alphabet of character  *)
(* classes; a reference definition of what is accepted and of the path derived   *)
(* from an accepted name, following the grammar in the doc comments of           *)
(* types/model/name.go and server/internal/internal/names/name.go.               *)
(*                                                                              *)
(* A string is a sequence of one-character strings.  Both splitting algorithms  *)
(* are transcribed (ParseNameBare of types/model, Parse of internal/names).      *)
(* TLC checks on every string within the bound that an accepted name yields a    *)
(* path of exactly four safe components, that printing and re-parsing is the     *)
(* identity, and that the two parsers agree on fully qualified names.            *)
EXTENDS Integers, Sequences, FiniteSets, TLC, Json

Lower == {"a", "b", "c", "d", "e", "f", "g", "h", "i", "j", "k", "l", "m", "n", "o", "p", "q", "r", "s", "t", "u", "v", "w", "x", "y", "z"}
Upper == {"A", "B", "C", "D", "E", "F", "G", "H", "I", "J", "K", "L", "M", "N", "O", "P", "Q", "R", "S", "T", "U", "V", "W", "X", "Y", "Z"}
Digit == {"0", "1", "2", "3", "4", "5", "6", "7", "8", "9"}
AlnumU == Lower \cup Upper \cup Digit \cup {"_"}

\* ---------------------------------------------------------------- part rules
MaxLen(kind) == IF kind = "host" THEN 350 ELSE 80
ValidPart(kind, p) ==
  /\ Len(p) >= 1 /\ Len(p) <= MaxLen(kind)
  /\ p[1] \in AlnumU
  /\ \A i \in 2..Len(p) :
       \/ p[i] \in AlnumU \cup {"_", "-"}
       \/ p[i] = "." /\ kind # "namespace"
       \/ p[i] = ":" /\ kind = "host"

\* ---------------------------------------------------------------- helpers on strings
LastIdx(s, cs) == LET I == {i \in 1..Len(s) : s[i] \in cs} IN
                  IF I = {} THEN 0 ELSE CHOOSE i \in I : \A j \in I : j <= i
Before(s, i) == SubSeq(s, 1, i - 1)
After(s, i) == SubSeq(s, i + 1, Len(s))
Missing == <<"!">>   \* stands for the "!MISSING!" marker (never a valid part)
OrMissing(p) == IF p = <<>> THEN Missing ELSE p

\* ---------------------------------------------------------------- types/model.ParseNameBare
\* returns [h, n, m, t]; <<>> = part absent
ModelParse(s0) ==
  LET c  == LastIdx(s0, {":"})
      sl == LastIdx(s0, {"/"})
      hasTag == c > sl                           \* LastIndex(":") > LastIndex("/"), both -1 if absent
      t  == IF hasTag THEN OrMissing(After(s0, c)) ELSE <<>>
      s1 == IF hasTag THEN OrMissing(Before(s0, c)) ELSE s0
      i1 == LastIdx(s1, {"/"})
  IN IF i1 = 0 THEN [h |-> <<>>, n |-> <<>>, m |-> s1, t |-> t]
     ELSE LET m  == OrMissing(After(s1, i1))
              s2 == OrMissing(Before(s1, i1))
              i2 == LastIdx(s2, {"/"})
          IN IF i2 = 0 THEN [h |-> <<>>, n |-> s2, m |-> m, t |-> t]
             ELSE LET n  == OrMissing(After(s2, i2))
                      s3 == OrMissing(Before(s2, i2))
                      \* scheme://host : keep what follows the first "://"
                      K  == {k \in 1..(Len(s3) - 2) : s3[k] = ":" /\ s3[k + 1] = "/" /\ s3[k + 2] = "/"}
                      h  == IF K = {} THEN s3 ELSE SubSeq(s3, (CHOOSE k \in K : \A j \in K : k <= j) + 3, Len(s3))
                  IN [h |-> h, n |-> n, m |-> m, t |-> t]

\* ---------------------------------------------------------------- internal/names.Parse
RECURSIVE NamesLoop(_, _)
NamesLoop(s, t) ==
  LET i == LastIdx(s, {"/", ":"}) IN
  IF i = 0 THEN [h |-> <<>>, n |-> <<>>, m |-> s, t |-> t]
  ELSE IF s[i] = ":" THEN NamesLoop(Before(s, i), After(s, i))
  ELSE LET b == Before(s, i)
           j == LastIdx(b, {"/"})
       IN [h |-> IF j = 0 THEN <<>> ELSE Before(b, j), n |-> IF j = 0 THEN b ELSE After(b, j),
           m |-> After(s, i), t |-> t]
MaxNameLength == 350 + 1 + 80 + 1 + 80 + 1 + 80
NamesParse(s) == IF Len(s) > MaxNameLength THEN [h |-> <<>>, n |-> <<>>, m |-> <<>>, t |-> <<>>] ELSE NamesLoop(s, <<>>)

FullyQualified(r) == /\ ValidPart("host", r.h) /\ ValidPart("namespace", r.n)
                     /\ ValidPart("model", r.m) /\ ValidPart("tag", r.t)
Show(r) == (IF r.h # <<>> THEN r.h \o <<"/">> ELSE <<>>) \o (IF r.n # <<>> THEN r.n \o <<"/">> ELSE <<>>)
            \o r.m \o (IF r.t # <<>> THEN <<":">> \o r.t ELSE <<>>)
\* path components derived from an accepted name
PathOf(r) == <<r.h, r.n, r.m, r.t>>
SafeComponent(p) == p # <<>> /\ p # <<".">> /\ p # <<".", ".">> /\ \A i \in 1..Len(p) : p[i] \notin {"/", "\\"}
===============================================================================

----------------------------- MODULE LockDiscipline -----------------------------
(* C15 -- the lock discipline of the scheduler's shared state as a table, and the   *)
(* pairs of accesses it leaves unprotected.  One record per access site of           *)
(* server/sched.go and server/routes.go (PsHandler): the function, the field of      *)
(* runnerRef (or the table s.loaded), whether it writes, and the locks held at the    *)
(* site ("ref" = that runner's refMu, "loaded" = Scheduler.loadedMu).  Fields that    *)
(* are written only before the runner is published (modelPath, estimatedVRAM,         *)
(* estimatedTotal, numParallel) are left out.  Two accesses CONFLICT when they touch   *)
(* the same field, at least one writes, they can run in different goroutines, and     *)
(* they hold no lock in common.  TLC evaluates the set; checks/c15.py requires that    *)
(* it is exactly the set of listed findings, and that every race the detector reports *)
(* on these fields is one of its pairs.  Switches reproduce the two repaired defects.  *)
EXTENDS Integers, FiniteSets, TLC, Json

CONSTANTS PsLocksTable,     \* TRUE: PsHandler holds loadedMu while it walks s.loaded (fix e7b2630da)
          LoadingUnderLoaded \* TRUE: the load goroutine clears `loading` under loadedMu as well (fix ac0d5c1d1)

S(fn, field, w, locks, g) == [fn |-> fn, field |-> field, w |-> w, locks |-> locks, g |-> g]
\* g: the goroutine kind the site runs in ("P" processPending, "C" processCompleted, "L" load goroutine, "T" timer callback,
\*    "H" an HTTP handler); two sites of the same single goroutine (P or C) never run concurrently
Sites ==
  { S("processPending", "loaded", FALSE, {"loaded"}, "P"),
    S("processPending.evict", "expireTimer", TRUE, {"ref"}, "P"), S("processPending.evict", "sessionDuration", TRUE, {"ref"}, "P"),
    S("processPending.evict", "refCount", FALSE, {"ref"}, "P"),
    S("processCompleted.finished", "loaded", FALSE, {"loaded"}, "C"),
    S("processCompleted.finished", "refCount", TRUE, {"ref"}, "C"), S("processCompleted.finished", "sessionDuration", FALSE, {"ref"}, "C"),
    S("processCompleted.finished", "expireTimer", TRUE, {"ref"}, "C"), S("processCompleted.finished", "expiresAt", TRUE, {"ref"}, "C"),
    S("timer", "expireTimer", TRUE, {"ref"}, "T"),
    S("processCompleted.expired", "refCount", FALSE, {"ref"}, "C"),
    S("processCompleted.expired", "loaded", TRUE, {"ref", "loaded"}, "C"),
    S("unload", "expireTimer", TRUE, {"ref", "loaded"}, "C"), S("unload", "llama", TRUE, {"ref", "loaded"}, "C"),
    S("unload", "model", TRUE, {"ref", "loaded"}, "C"), S("unload", "Options", TRUE, {"ref", "loaded"}, "C"),
    S("unload", "gpus", TRUE, {"ref", "loaded"}, "C"),
    S("waitForVRAMRecovery", "gpus", FALSE, {"ref", "loaded"}, "C"),
    S("useLoadedRunner", "llama", FALSE, {"ref"}, "P"), S("useLoadedRunner", "refCount", TRUE, {"ref"}, "P"),
    S("useLoadedRunner", "expireTimer", TRUE, {"ref"}, "P"), S("useLoadedRunner", "sessionDuration", TRUE, {"ref"}, "P"),
    S("load", "loaded", TRUE, {"ref", "loaded"}, "P"),
    S("load.func1", "refCount", TRUE, {"ref"}, "L"),
    S("load.func1", "loading", TRUE, IF LoadingUnderLoaded THEN {"ref", "loaded"} ELSE {"ref"}, "L"),
    S("updateFreeSpace", "loaded", FALSE, {"loaded"}, "P"), S("updateFreeSpace", "llama", FALSE, {"ref"}, "P"),
    S("filterGPUsWithoutLoadingModels", "loaded", FALSE, {"loaded"}, "P"),
    S("filterGPUsWithoutLoadingModels", "loading", FALSE, {"loaded"}, "P"), S("filterGPUsWithoutLoadingModels", "gpus", FALSE, {"loaded"}, "P"),
    S("needsReload", "loading", FALSE, {"ref"}, "P"), S("needsReload", "Options", FALSE, {"ref"}, "P"),
    S("needsReload", "model", FALSE, {"ref"}, "P"), S("needsReload", "llama", FALSE, {"ref"}, "P"),
    S("findRunnerToUnload", "loaded", FALSE, {"loaded"}, "P"), S("findRunnerToUnload", "refCount", FALSE, {"ref"}, "P"),
    S("ByDurationAndName.Less", "sessionDuration", FALSE, {}, "P"),
    S("unloadAllRunners", "loaded", TRUE, {"loaded"}, "H"), S("unloadAllRunners", "llama", FALSE, {"loaded"}, "H"),
    S("expireRunner", "loaded", FALSE, {"loaded"}, "H"),
    S("expireRunner", "expiresAt", TRUE, {"ref"}, "H"), S("expireRunner", "expireTimer", TRUE, {"ref"}, "H"),
    S("expireRunner", "sessionDuration", TRUE, {"ref"}, "H"), S("expireRunner", "refCount", FALSE, {"ref"}, "H"),
    S("PsHandler", "loaded", FALSE, IF PsLocksTable THEN {"loaded"} ELSE {}, "H"),
    S("PsHandler", "model", FALSE, IF PsLocksTable THEN {"loaded"} ELSE {}, "H"),
    S("PsHandler", "expiresAt", FALSE, IF PsLocksTable THEN {"loaded"} ELSE {}, "H"),
    S("PsHandler", "sessionDuration", FALSE, IF PsLocksTable THEN {"loaded"} ELSE {}, "H") }

Single == {"P", "C"}      \* one goroutine each
Concurrent(a, b) == ~(a.g = b.g /\ a.g \in Single)
Conflict(a, b) == a.field = b.field /\ (a.w \/ b.w) /\ Concurrent(a, b) /\ a.locks \cap b.locks = {}
\* the lock a field belongs to; in an unprotected pair the side to blame is the one that does not hold it
Designated(f) == IF f = "loaded" THEN "loaded" ELSE "ref"
Unprotected == {[fns |-> {p[1].fn, p[2].fn}, field |-> p[1].field,
                 blamed |-> {x.fn : x \in {y \in {p[1], p[2]} : Designated(y.field) \notin y.locks}}]
                : p \in {q \in Sites \X Sites : Conflict(q[1], q[2])}}
\* by blamed function and field: what a race report is matched against
Candidates == UNION {{<<fn, t.field>> : fn \in t.blamed} : t \in Unprotected}
ASSUME PrintT(ToJson([candidates |-> Candidates, pairs |-> Unprotected]))
===============================================================================

//go:build verif

package server

// /verif harness for C02 at the API: requests go through the real handlers (scheduleRunner in routes.go
// is the scheduler's caller), some of them abandoned by their client after a few milliseconds -- while
// they are queued, while the scheduler pings the loaded runner, while a load or an unload is under way.
// Observed: every request whose client did not give up gets an answer, and once everything is over and
// the keep-alive has elapsed nothing is reported as loaded.

import (
	"bytes"
	"context"
	"encoding/json"
	"fmt"
	"math/rand"
	"net/http"
	"os"
	"strconv"
	"sync"
	"sync/atomic"
	"testing"
	"time"

	"github.com/ollama/ollama/api"
)

func (v *vfSrv) doCtx(ctx context.Context, method, path string, body any) (int, error) {
	js, _ := json.Marshal(body)
	req, _ := http.NewRequestWithContext(ctx, method, v.ts.URL+path, bytes.NewReader(js))
	req.Header.Set("Content-Type", "application/json")
	resp, err := http.DefaultClient.Do(req)
	if err != nil {
		return 0, err
	}
	defer resp.Body.Close()
	buf := new(bytes.Buffer)
	_, err = buf.ReadFrom(resp.Body)
	return resp.StatusCode, err
}

func TestVFHandlerProgress(t *testing.T) {
	outPath := os.Getenv("VF_OUT")
	if outPath == "" {
		t.Skip("VF_OUT not set")
	}
	seed, _ := strconv.ParseInt(os.Getenv("VF_SEED"), 10, 64)
	rounds, _ := strconv.Atoi(os.Getenv("VF_ROUNDS"))
	if rounds == 0 {
		rounds = 3
	}
	const patience = 20 * time.Second
	t.Setenv("OLLAMA_KEEP_ALIVE", "5ms")
	t.Setenv("OLLAMA_MAX_QUEUE", "32")
	t.Setenv("OLLAMA_NUM_PARALLEL", "1")
	var recs []map[string]any
	for round := 0; round < rounds; round++ {
		t.Setenv("OLLAMA_MAX_LOADED_MODELS", strconv.Itoa(1+round%2))
		v := vfNewSrv(seed*100 + int64(round) + 1)
		v.pingDelay.Store(int64(time.Duration(1+round%3) * 2 * time.Millisecond))
		for i, m := range []string{"m1", "m2"} {
			if code, body := v.createModel(m, i, ""); code != 200 {
				t.Fatalf("create %s: %d %s", m, code, body)
			}
		}
		var mu sync.Mutex
		var stuck atomic.Bool
		counts := map[string]int{}
		bump := func(k string) { mu.Lock(); counts[k]++; mu.Unlock() }
		f := false
		var wg sync.WaitGroup
		for wk := 0; wk < 6; wk++ {
			wg.Add(1)
			go func(wk int) {
				defer wg.Done()
				rng := rand.New(rand.NewSource(seed*1000 + int64(round*41+wk)))
				for i := 0; i < 40 && !stuck.Load(); i++ {
					m := []string{"m1", "m2"}[rng.Intn(2)]
					var req any = api.GenerateRequest{Model: m, Prompt: "hi", Stream: &f}
					switch rng.Intn(8) {
					case 0:
						req = api.GenerateRequest{Model: m, KeepAlive: &api.Duration{Duration: 0}} // explicit unload
					case 1, 2:
						// "keep this model loaded for ever": it must still make room when another model is asked for
						req = map[string]any{"model": m, "prompt": "hi", "stream": false, "keep_alive": -1}
					}
					if rng.Intn(2) == 0 { // a client that gives up
						ctx, cancel := context.WithTimeout(context.Background(), time.Duration(rng.Intn(12000)+200)*time.Microsecond)
						_, err := v.doCtx(ctx, "POST", "/api/generate", req)
						cancel()
						if err != nil {
							bump("abandoned")
						} else {
							bump("answered-before-giving-up")
						}
						continue
					}
					ctx, cancel := context.WithTimeout(context.Background(), patience)
					t0 := time.Now()
					code, err := v.doCtx(ctx, "POST", "/api/generate", req)
					cancel()
					if err != nil {
						stuck.Store(true)
						mu.Lock()
						recs = append(recs, map[string]any{"ev": "unanswered", "t": round, "model": m, "waited_ms": time.Since(t0).Milliseconds(), "err": err.Error()})
						mu.Unlock()
						return
					}
					bump(fmt.Sprintf("answered-%d", code))
				}
			}(wk)
		}
		wg.Wait()
		// afterwards: a patient request per model is answered, and then nothing stays loaded
		for _, m := range []string{"m1", "m2"} {
			ctx, cancel := context.WithTimeout(context.Background(), patience)
			// (zero keep-alive: whatever keep-alive earlier requests asked for, the model goes once this one is done)
			code, err := v.doCtx(ctx, "POST", "/api/generate", map[string]any{"model": m, "prompt": "hi", "stream": false, "keep_alive": 0})
			cancel()
			if err != nil {
				recs = append(recs, map[string]any{"ev": "unanswered", "t": round, "model": m, "waited_ms": patience.Milliseconds(), "err": err.Error(), "final": true})
			} else {
				bump(fmt.Sprintf("final-%d", code))
			}
		}
		loaded := -1
		for deadline := time.Now().Add(10 * time.Second); time.Now().Before(deadline); time.Sleep(20 * time.Millisecond) {
			ctx, cancel := context.WithTimeout(context.Background(), 5*time.Second)
			req, _ := http.NewRequestWithContext(ctx, "GET", v.ts.URL+"/api/ps", nil)
			resp, err := http.DefaultClient.Do(req)
			if err == nil {
				var pr api.ProcessResponse
				json.NewDecoder(resp.Body).Decode(&pr)
				resp.Body.Close()
				loaded = len(pr.Models)
			}
			cancel()
			if loaded == 0 {
				break
			}
		}
		v.h.mu.Lock()
		started, closed := len(v.h.fakes), 0
		for _, fk := range v.h.fakes {
			if fk.closed.Load() > 0 {
				closed++
			}
		}
		v.h.mu.Unlock()
		mu.Lock()
		recs = append(recs, map[string]any{"ev": "round", "t": round, "counts": counts, "loaded_at_end": loaded, "runners_started": started, "runners_closed": closed})
		mu.Unlock()
		// not v.close(): httptest's Close waits for every handler, and the handler of a request that was abandoned
		// while queued never returns on this tree (the scheduler drops it without a reply and scheduleRunner does not
		// watch its context) -- permitted by C02 ("a cancelled request receives at most one"), so it is only counted
		v.cancel()
		vfInstall(nil)
	}
	out, err := os.Create(outPath)
	if err != nil {
		t.Fatal(err)
	}
	defer out.Close()
	enc := json.NewEncoder(out)
	for _, r := range recs {
		enc.Encode(r)
	}
	fmt.Printf("VF replayed=%d\n", rounds)
}

package server

// /verif harness for C13: every enumerated string is given, as a model name, to both name parsers
// (types/model, server/internal/internal/names), to ParseModelPath/GetManifestPath and to
// blob.DiskCache.Link/Unlink on a scratch cache; digest-shaped strings go to GetBlobsPath and
// blob.ParseDigest/GetFile.  What comes back (parts, printed forms, path components, files created)
// is recorded for specs/Trace_Names.tla.

import (
	"bufio"
	"encoding/json"
	"fmt"
	"os"
	"path/filepath"
	"slices"
	"strings"
	"sync"
	"testing"
	"unicode"

	"github.com/ollama/ollama/server/internal/cache/blob"
	"github.com/ollama/ollama/types/model"
)

type vfNameCase struct {
	Id    int      `json:"id"`
	Kind  string   `json:"kind"` // name | digest
	Chars []string `json:"chars"`
	S     string   `json:"s"`
	WF    bool     `json:"wf"` // digest cases: well-formed by the documented grammar
}

func vfSwapCase(s string) string {
	return strings.Map(func(r rune) rune {
		if unicode.IsUpper(r) {
			return unicode.ToLower(r)
		}
		return unicode.ToUpper(r)
	}, s)
}

func vfComps(rel string) []string {
	rel = filepath.ToSlash(rel)
	if rel == "" || rel == "." {
		return []string{}
	}
	return strings.Split(rel, "/")
}

func vfTree(root string) []string {
	var out []string
	filepath.Walk(root, func(p string, info os.FileInfo, err error) error {
		if err == nil && p != root {
			rel, _ := filepath.Rel(root, p)
			if info.IsDir() {
				rel += "/"
			}
			out = append(out, filepath.ToSlash(rel))
		}
		return nil
	})
	slices.Sort(out)
	return out
}

type vfNameEnv struct {
	root   string // sandbox: everything the cache may touch must stay below root/cache
	cache  *blob.DiskCache
	d      blob.Digest
	models string
}

func vfNewNameEnv() *vfNameEnv {
	root, err := os.MkdirTemp("", "vfnames")
	if err != nil {
		panic(err)
	}
	e := &vfNameEnv{root: root, models: filepath.Join(root, "models")}
	os.MkdirAll(e.models, 0o755)
	e.reset()
	return e
}

func (e *vfNameEnv) reset() {
	os.RemoveAll(filepath.Join(e.root, "cache"))
	os.WriteFile(filepath.Join(e.root, "sentinel"), []byte("x"), 0o644)
	c, err := blob.Open(filepath.Join(e.root, "cache"))
	if err != nil {
		panic(err)
	}
	e.cache = c
	m := `{"layers":[]}`
	e.d = blob.DigestFromBytes(m)
	if err := blob.PutBytes(c, e.d, m); err != nil {
		panic(err)
	}
	// a bystander manifest that no enumerated string names
	by := filepath.Join(e.root, "cache", "manifests", "zz.host", "zzns", "zzmodel")
	os.MkdirAll(by, 0o755)
	os.WriteFile(filepath.Join(by, "zztag"), []byte(m), 0o644)
}

func vfNameRun(e *vfNameEnv, c vfNameCase) (rec map[string]any) {
	s := c.S
	rec = map[string]any{"ev": "name", "id": c.Id, "chars": c.Chars, "panic": ""}
	defer func() {
		if r := recover(); r != nil {
			rec["panic"] = fmt.Sprint(r)
		}
	}()
	parts := func(h, n, m, t string) []string { return []string{h, n, m, t} }

	// ---- types/model
	mb := model.ParseNameBare(s)
	rec["mb"] = parts(mb.Host, mb.Namespace, mb.Model, mb.Tag)
	rec["mfq"] = mb.IsFullyQualified()
	mn := model.ParseName(s)
	rec["mv"] = mn.IsValid()
	rec["mpath"] = []string{}
	rec["mrt"], rec["mfold"] = true, true
	if mn.IsValid() {
		rec["mpath"] = vfComps(mn.Filepath())
		rec["mrt"] = model.ParseName(mn.String()) == mn
		o := model.ParseName(vfSwapCase(s))
		rec["mfold"] = o.IsValid() && o.EqualFold(mn) && strings.EqualFold(o.Filepath(), mn.Filepath())
	}
	// ---- server: manifest path of the name
	rec["mpok"], rec["mp"] = false, []string{}
	if p, err := ParseModelPath(s).GetManifestPath(); err == nil {
		rel, rerr := filepath.Rel(e.models, p)
		rec["mpok"] = true
		if rerr != nil {
			rec["mp"] = []string{"..", "unrelated"}
		} else {
			rec["mp"] = vfComps(rel)
		}
	}
	// ---- blob cache: what Link creates and what Unlink removes.  A bystander model whose host
	// directory differs from this name's host only in letter case is put in the store first.
	if mb.IsFullyQualified() {
		by := filepath.Join(e.root, "cache", "manifests", vfSwapCase(mb.Host), "zzns", "zzmodel")
		if os.MkdirAll(by, 0o755) == nil {
			os.WriteFile(filepath.Join(by, "zztag"), []byte(`{"layers":[]}`), 0o644)
		}
	}
	before := vfTree(e.root)
	lerr := e.cache.Link(s, e.d)
	after := vfTree(e.root)
	rec["resolvefold"] = true
	if lerr == nil {
		d1, err1 := e.cache.Resolve(s)
		d2, err2 := e.cache.Resolve(vfSwapCase(s))
		rec["resolvefold"] = err1 == nil && err2 == nil && d1 == e.d && d2 == e.d
	}
	var created, removed []string
	for _, p := range after {
		if !slices.Contains(before, p) && !strings.HasSuffix(p, "/") {
			created = append(created, p)
		}
	}
	for _, p := range before {
		if !slices.Contains(after, p) {
			removed = append(removed, p)
		}
	}
	rec["linkok"] = lerr == nil
	rec["created"] = append([]string{}, created...)
	rec["createdat"] = []string{}
	if len(created) > 0 {
		rel, _ := filepath.Rel("cache", filepath.FromSlash(created[0]))
		rec["createdat"] = vfComps(rel)
	}
	rec["removed"] = append([]string{}, removed...)
	_, uerr := e.cache.Unlink(s)
	after2 := vfTree(e.root)
	var gone []string
	for _, p := range before { // everything that existed before the Link must survive Link+Unlink
		if !slices.Contains(after2, p) {
			gone = append(gone, p)
		}
	}
	rec["unlinkok"] = uerr == nil
	rec["gone"] = append([]string{}, gone...)
	if len(created)+len(removed)+len(gone) > 0 || len(after2) > len(before)+8 {
		e.reset()
	}
	return rec
}

func vfDigestRun(e *vfNameEnv, c vfNameCase) (rec map[string]any) {
	s := c.S
	rec = map[string]any{"ev": "digest", "id": c.Id, "s": s, "len": len(s), "panic": "", "gbpok": false, "gbp": []string{},
		"pdok": false, "gf": []string{}, "canon": true, "wellformed": c.WF, "wellformedlower": c.WF}
	defer func() {
		if r := recover(); r != nil {
			rec["panic"] = fmt.Sprint(r)
		}
	}()
	if p, err := GetBlobsPath(s); err == nil {
		rel, rerr := filepath.Rel(e.models, p)
		rec["gbpok"] = true
		if rerr != nil {
			rec["gbp"] = []string{"..", "unrelated"}
		} else {
			rec["gbp"] = vfComps(rel)
		}
	}
	if d, err := blob.ParseDigest(s); err == nil {
		rec["pdok"] = true
		rel, rerr := filepath.Rel(filepath.Join(e.root, "cache"), e.cache.GetFile(d))
		if rerr != nil {
			rec["gf"] = []string{"..", "unrelated"}
		} else {
			rec["gf"] = vfComps(rel)
		}
		// print/parse round trip of the digest itself
		d2, err2 := blob.ParseDigest(d.String())
		rec["canon"] = err2 == nil && d2 == d
	}
	return rec
}

func TestVFNamesReplay(t *testing.T) {
	inPath, outPath := os.Getenv("VF_IN"), os.Getenv("VF_OUT")
	if inPath == "" || outPath == "" {
		t.Skip("VF_IN / VF_OUT not set")
	}
	in, err := os.Open(inPath)
	if err != nil {
		t.Fatal(err)
	}
	defer in.Close()
	out, err := os.Create(outPath)
	if err != nil {
		t.Fatal(err)
	}
	defer out.Close()
	w := bufio.NewWriterSize(out, 1<<20)
	defer w.Flush()
	enc := json.NewEncoder(w)
	sc := bufio.NewScanner(in)
	sc.Buffer(make([]byte, 1<<20), 1<<26)
	var cases []vfNameCase
	for sc.Scan() {
		var c vfNameCase
		if err := json.Unmarshal(sc.Bytes(), &c); err != nil {
			t.Fatalf("bad case: %v", err)
		}
		if c.Kind != "digest" {
			c.S = strings.Join(c.Chars, "")
		}
		cases = append(cases, c)
	}
	env0 := vfNewNameEnv()
	defer os.RemoveAll(env0.root)
	t.Setenv("OLLAMA_MODELS", env0.models) // GetManifestPath / GetBlobsPath read the environment
	workers := 8
	recs := make([]map[string]any, len(cases))
	var wg sync.WaitGroup
	for wk := 0; wk < workers; wk++ {
		wg.Add(1)
		go func(wk int) {
			defer wg.Done()
			e := vfNewNameEnv()
			e.models = env0.models
			defer os.RemoveAll(e.root)
			for i := wk; i < len(cases); i += workers {
				if cases[i].Kind == "digest" {
					recs[i] = vfDigestRun(e, cases[i])
				} else {
					recs[i] = vfNameRun(e, cases[i])
				}
			}
		}(wk)
	}
	wg.Wait()
	for _, r := range recs {
		enc.Encode(r)
	}
	// nothing may have appeared next to the models directory
	fmt.Printf("VF replayed=%d modelsdir=%v\n", len(cases), vfTree(filepath.Dir(env0.models)))
}

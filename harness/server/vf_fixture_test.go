//go:build verif

package server

// /verif fixture shared by the HTTP-level harnesses (C15, C17, C10, C04): a real Server with the
// routes of GenerateRoutes behind httptest, a real Scheduler whose runners are vfFakes, and a scratch
// OLLAMA_MODELS directory.

import (
	"bytes"
	"context"
	"crypto/sha256"
	"encoding/json"
	"fmt"
	"io"
	"math/rand"
	"net/http"
	"net/http/httptest"
	"os"
	"path/filepath"
	"strings"
	"sync"
	"sync/atomic"
	"time"

	"github.com/gin-gonic/gin"

	"github.com/ollama/ollama/api"
	"github.com/ollama/ollama/discover"
	"github.com/ollama/ollama/format"
	"github.com/ollama/ollama/fs/ggml"
	"github.com/ollama/ollama/llm"
)

type vfSrv struct {
	s      *Server
	ts     *httptest.Server
	h      *vfSchedH
	dir    string
	cancel func()
	clock  atomic.Int64
	// how long a fake runner takes to answer a ping (ns): the window between dequeue and reply
	pingDelay atomic.Int64
	// the runner dies after its final chunk: tokenizing prompt + response (GenerateHandler) fails
	tokenizeFail atomic.Bool
	// what the fake runners answer: chunks, then the final record (or an error after `failAfter` chunks)
	mu         sync.Mutex
	completion func(ctx context.Context, req llm.CompletionRequest, fn func(llm.CompletionResponse)) error
}

func (v *vfSrv) tick() int64 { return v.clock.Add(1) }

const vfToolTemplate = `{{- if .Tools }}{{ .Tools }} {{ end }}{{- range .Messages }}{{ .Role }}: {{ .Content }}
{{- range .ToolCalls }}{"name": "{{ .Function.Name }}", "arguments": {{ .Function.Arguments }}}
{{- end }} {{ end }}`

func vfGGUFBytes(extra int) []byte { return vfGGUFBytesKV(extra, nil) }

func vfGGUFBytesKV(extra int, more map[string]any) []byte {
	dir, _ := os.MkdirTemp("", "vfgguf")
	defer os.RemoveAll(dir)
	p := filepath.Join(dir, "m.gguf")
	f, _ := os.Create(p)
	kv := ggml.KV{}
	for k, v := range more {
		kv[k] = v
	}
	base := ggml.KV{
		"general.architecture":          "llama",
		"llama.block_count":             uint32(1),
		"llama.context_length":          uint32(8192),
		"llama.embedding_length":        uint32(4096),
		"llama.attention.head_count":    uint32(32),
		"llama.attention.head_count_kv": uint32(8),
		"tokenizer.ggml.tokens":         []string{""},
		"tokenizer.ggml.scores":         []float32{0},
		"tokenizer.ggml.token_type":     []int32{0},
	}
	for k, v := range base {
		kv[k] = v
	}
	err := ggml.WriteGGUF(f, kv, []ggml.Tensor{
		{Name: "token_embd.weight", Shape: []uint64{1}, WriterTo: bytes.NewReader(make([]byte, 4))},
		{Name: "blk.0.attn_norm.weight", Shape: []uint64{uint64(1 + extra)}, WriterTo: bytes.NewReader(make([]byte, 4*(1+extra)))},
		{Name: "output.weight", Shape: []uint64{1}, WriterTo: bytes.NewReader(make([]byte, 4))},
	})
	f.Close()
	if err != nil {
		panic(err)
	}
	b, _ := os.ReadFile(p)
	return b
}

func vfNewSrv(noiseSeed int64) *vfSrv {
	gin.SetMode(gin.TestMode)
	dir, err := os.MkdirTemp("", "vfsrv")
	if err != nil {
		panic(err)
	}
	os.Setenv("OLLAMA_MODELS", dir)
	ctx, cancel := context.WithCancel(context.Background())
	v := &vfSrv{dir: dir, cancel: cancel}
	h := &vfSchedH{cfg: vfSchedCfg{Noise: noiseSeed != 0}, arrived: make(chan struct{}, 1), reqs: map[string]*vfReqH{},
		byCtx: map[context.Context]string{}, rng: rand.New(rand.NewSource(noiseSeed)), rid: map[*runnerRef]int{}}
	v.h = h
	sched := InitScheduler(ctx)
	sched.reschedDelay = time.Millisecond
	gpu := func() discover.GpuInfoList {
		g := discover.GpuInfo{Library: "metal"}
		g.ID = "0"
		g.TotalMemory, g.FreeMemory = 24*format.GigaByte, 12*format.GigaByte
		return []discover.GpuInfo{g}
	}
	sched.getGpuFn, sched.getCpuFn = gpu, gpu
	sched.newServerFn = func(gpus discover.GpuInfoList, model string, f *ggml.GGML, adapters, projectors []string, opts api.Options, numParallel int) (llm.LlamaServer, error) {
		h.mu.Lock()
		fk := &vfFake{h: h, id: len(h.fakes) + 1, model: model, numCtx: opts.NumCtx, release: make(chan error, 1), srv: v}
		h.fakes = append(h.fakes, fk)
		h.mu.Unlock()
		fk.release <- nil // loads succeed at once
		h.log(map[string]any{"ev": "start", "r": fk.id, "model": model, "c": v.tick()})
		return fk, nil
	}
	h.sched = sched
	if noiseSeed != 0 {
		vfInstall(h)
	}
	v.s = &Server{sched: sched}
	sched.Run(ctx)
	handler, err := v.s.GenerateRoutes(nil)
	if err != nil {
		panic(err)
	}
	v.ts = httptest.NewServer(handler)
	return v
}

func (v *vfSrv) close() {
	v.ts.Close()
	v.cancel()
	vfInstall(nil)
	os.RemoveAll(v.dir)
}

func (v *vfSrv) do(method, path string, body any) (int, []byte, error) {
	var rd io.Reader
	switch b := body.(type) {
	case nil:
	case []byte:
		rd = bytes.NewReader(b)
	default:
		js, _ := json.Marshal(b)
		rd = bytes.NewReader(js)
	}
	req, _ := http.NewRequest(method, v.ts.URL+path, rd)
	if rd != nil {
		req.Header.Set("Content-Type", "application/json")
	}
	resp, err := http.DefaultClient.Do(req)
	if err != nil {
		return 0, nil, err
	}
	defer resp.Body.Close()
	data, err := io.ReadAll(resp.Body)
	return resp.StatusCode, data, err
}

func (v *vfSrv) uploadBlob(data []byte) string {
	d := fmt.Sprintf("sha256:%x", sha256.Sum256(data))
	code, body, err := v.do("POST", "/api/blobs/"+d, data)
	if err != nil || code >= 300 {
		panic(fmt.Sprintf("blob upload: %v %d %s", err, code, body))
	}
	return d
}

func (v *vfSrv) createModel(name string, extra int, system string) (int, string) {
	d := v.uploadBlob(vfGGUFBytes(extra))
	stream := false
	code, body, _ := v.do("POST", "/api/create", api.CreateRequest{Model: name, Files: map[string]string{"m.gguf": d},
		Template: vfToolTemplate, System: system, Stream: &stream})
	return code, strings.TrimSpace(string(body))
}

func sha256Sum(b []byte) [32]byte { return sha256.Sum256(b) }

"""C15 -- concurrent API use causes no data race, panic or torn view of running models.

A TLA+ specification cannot observe memory accesses; the Go race detector can, without false positives.
What the specification contributes: LockDiscipline.tla lists every access site of the shared scheduler state with the locks held
(the unlocked readers of the pinned tree -- PsHandler, findRunnerToUnload's sort -- are exactly its
RaceCandidates), the workloads create the concurrent situations those candidates need (load / unload /
expire churn under ps, generate, chat, copy, delete ...), and Trace_Ps.tla judges the running-models
lists.  Level claimed: exploration (schedules are sampled on the real code under -race).
"""
import json
import os
import re
import time

import racereport
import vf

PROP = "C15"


def classify(rep, known):
    accs = [a for a in rep["accesses"] if a[1]]
    # the race detector sometimes cannot restore one of the two stacks ("[failed to restore the stack]"): such a report shows
    # one side only.  It is attributed to a listed finding when the side it does show is an access to that finding's field
    # in that finding's file (every other unlocked access to these fields is a listed reader: PsHandler, ByDurationAndName.Less)
    incomplete = len(accs) < 2 or len(accs) < len(rep["accesses"])
    lines = [racereport.source_line(a[2]) for a in accs]
    funcs = [a[1] for a in accs]
    for k in known:
        m = k["race"]
        if not accs:
            continue
        if incomplete:
            if all(re.search(m["field"], l) and (a[2].startswith(m["other_file"]) or re.search(m["reader_func"], f))
                   for a, f, l in zip(accs, funcs, lines)):
                return k
            continue
        if any(re.search(m["reader_func"], f) and re.search(m["field"], l) for f, l in zip(funcs, lines)) and \
                all(re.search(m["field"], l) or re.search(m["reader_func"], f) for f, l in zip(funcs, lines)) and \
                all(a[2].startswith(m["other_file"]) or re.search(m["reader_func"], a[1]) for a in accs):
            return k
    return None


def run(tier="quick", seed=1, replay=None):
    t0 = time.time()
    res = vf.Result(PROP)
    quick = tier == "quick"
    cov = dict(samples=[], evaluations=0, distinct_nontrivial=0)
    with vf.scratch("vf-c15-") as wd:
        # the lock discipline as a table (LockDiscipline.tla): TLC computes the unprotected pairs; they must be exactly the listed
        # findings, and the two repaired defects must reappear when their switch is turned off
        def candidates(ps, lu):
            cfg = vf.write_cfg(wd, f"LD_{ps}_{lu}.cfg", {"PsLocksTable": ps, "LoadingUnderLoaded": lu}, "")
            r = vf.tlc("LockDiscipline", cfg, wd, timeout=300)
            vals = vf.printed_json(r["out"])
            if not vals:
                raise vf.Inconclusive("LockDiscipline.tla did not evaluate:\n" + r["out"][-1500:])
            return {tuple(c) for c in vals[0]["candidates"]}
        cur = candidates("TRUE", "TRUE")
        known_races = [k for k in vf.load_findings(PROP) if "race" in k]
        unmatched = [c for c in cur if not any(re.search(k["race"]["reader_func"], c[0]) and re.search(k["race"]["field"], c[1]) for k in known_races)]
        unused = [k["id"] for k in known_races if not any(re.search(k["race"]["reader_func"], c[0]) and re.search(k["race"]["field"], c[1]) for c in cur)]
        if unmatched or unused:
            raise vf.Inconclusive(f"the lock-discipline table and the list of findings disagree: unprotected pairs without a finding {unmatched}, findings without a pair {unused}")
        if ("PsHandler", "loaded") not in candidates("FALSE", "TRUE") or ("filterGPUsWithoutLoadingModels", "loading") not in candidates("TRUE", "FALSE"):
            raise vf.Inconclusive("LockDiscipline.tla no longer shows the two repaired defects when their switches are off")
        cov["lock_discipline"] = {"unprotected_pairs_current_code": sorted(list(c) for c in cur), "equals_listed_findings": True,
                                  "repaired_defects_reappear_with_switch_off": ["PsHandler/loaded,model", "filterGPUsWithoutLoadingModels/loading"]}
        trace = os.path.join(wd, "trace.ndjson")
        env = dict(VF_OUT=trace, VF_SEED=str(seed), VF_OPS="100" if quick else "200", VF_ROUNDS="6" if quick else "30")
        rc, out = vf.go_test2("./server", "^TestVFRace$", wd, vf.harness_overlay(["server"]), env=env,
                              timeout=1800 if quick else 5400, race=True)
        reports = racereport.parse(out)
        crashed = "fatal error:" in out or "panic:" in out and "VF replayed=" not in out
        if "VF replayed=" not in out and not reports and not crashed:
            raise vf.Inconclusive("race workload did not run:\n" + out[-3000:])
        recs = vf.read_ndjson(trace) if os.path.exists(trace) else []
        known = [k for k in vf.load_findings(PROP) if "race" in k]
        seen = {}
        for r in reports:
            k = classify(r, known)
            if k is not None:
                res.known_finding(k["what"])
                continue
            sig = tuple(sorted((a[1] or "?", racereport.source_line(a[2]) if a[2] else "?") for a in r["accesses"]))
            if sig in seen or len(res.violations) >= 6:
                seen[sig] = seen.get(sig, 0) + 1
                continue
            seen[sig] = 1
            p = vf.save_replay(PROP, f"race-{tier}-{seed}-{len(seen)}.txt", r["text"] + f"\n# rerun: VERIF_SEED={seed} bin/vcheck C15 --tier {tier}\n")
            res.violation("data race: " + " <-> ".join(f"{f} [{l[:60]}]" for f, l in sig), p)
        if "panic recovered" in out or "[Recovery]" in out:
            i = out.find("[Recovery]")
            p = vf.save_replay(PROP, f"panic-{tier}-{seed}.txt", out[max(0, i - 500):i + 6000])
            res.violation("a request made a handler panic (recovered by gin): " + out[i:i + 200].replace("\n", " | "), p)
        if crashed:
            m = re.search(r"(fatal error:.*|panic:.*)", out)
            p = vf.save_replay(PROP, f"crash-{tier}-{seed}.txt", out[-20000:])
            res.violation("the server process crashed under the concurrent workload: " + (m.group(1) if m else ""), p)
        v = dict(bad=[])
        if recs:
            with open(os.path.join(wd, "Trace_Ps.cfg"), "w") as f:
                f.write(vf.TRACE_CFG)
            v = vf.validate_trace("Trace_Ps", "Trace_Ps.cfg", trace, wd, timeout=1800)
        shown = {}
        for ln, tid, flags in v["bad"]:
            key = tuple(flags)
            shown[key] = shown.get(key, 0) + 1
            if shown[key] > 2:
                continue
            p = vf.save_replay(PROP, f"ps-{tier}-{seed}-{ln}.json", dict(record=recs[ln - 1], seed=seed, tier=tier))
            res.violation(f"{flags}: {json.dumps(recs[ln - 1])[:300]}", p)
        pss = [r for r in recs if r["ev"] == "ps"]
        cov["evaluations"] = int(env["VF_OPS"]) * 8 * int(env["VF_ROUNDS"])
        cov["distinct_nontrivial"] = len({json.dumps([r["b"], r["e"], r["models"], r["t"]]) for r in pss if r["models"]})
        cov["rule"] = ("evaluation = one API request of the concurrent workload (8 workers, 14 request kinds, seeded); "
                       "non-trivial = a running-models list that was not empty, i.e. taken while runners were being loaded/unloaded")
        cov["samples"] = pss[:3] + [r for r in recs if r["ev"] in ("start", "close")][:3]
        cov["race_reports"] = len(reports)
        cov["race_reports_unlisted"] = sum(seen.values())
        cov["runners_started"] = sum(1 for r in recs if r["ev"] == "start")
        cov["runners_closed"] = sum(1 for r in recs if r["ev"] == "close")
        cov["ps_lists"] = len(pss)
        cov["server_errors"] = sum(1 for r in recs if r["ev"] == "status")
    vf.write_evidence(PROP, tier, seed, "exploration", cov, time.time() - t0, violations=len(res.violations),
                      assumptions=["Go race detector (no false positives; only executed interleavings are judged)",
                                   "fake runners; keep-alive 3 ms and a limit of 2 loaded models to force load/unload churn",
                                   "pull / push are not part of the workload (covered by C03 / C09 harnesses)"])
    return res.finish()

--------------------------------- MODULE Stream ---------------------------------
(* C17 -- enumeration of (model output, split into runner chunks) and the design- *)
(* level check: with the remainder kept after a parsed object, streaming and      *)
(* non-streaming aggregation agree on every split; with the pinned reset they do  *)
(* not (the known finding).                                                       *)
EXTENDS StreamCore, Json

CONSTANTS MaxAtoms, MaxChunks, KeepRest

Atoms == {"J1", "J2", "T1", "T2"}
PiecesOf(a) == CASE a = "J1" -> << <<1, 1>>, <<1, 2>>, <<1, 3>> >>
                 [] a = "J2" -> << <<2, 1>>, <<2, 2>>, <<2, 3>> >>
                 [] a = "T1" -> << <<0, 1>> >>
                 [] a = "T2" -> << <<0, 2>>, <<0, 3>> >>
RECURSIVE Pieces(_)
Pieces(as) == IF as = <<>> THEN <<>> ELSE PiecesOf(Head(as)) \o Pieces(Tail(as))
Outputs == {as \in UNION {[1..n -> Atoms] : n \in 1..MaxAtoms} : \A i, j \in DOMAIN as : i # j => as[i] # as[j]}

\* a split = the set of piece indices after which a chunk ends (the last index always does)
Splits(n) == {S \in SUBSET (1..(n - 1)) : Cardinality(S) <= MaxChunks - 1}
ChunksOf(ps, S) ==
  LET cuts == S \cup {Len(ps)}
      RECURSIVE Build(_, _)
      Build(from, C) == IF C = {} THEN <<>>
                        ELSE LET c == CHOOSE x \in C : \A y \in C : x <= y IN <<SubSeq(ps, from, c)>> \o Build(c + 1, C \ {c})
  IN Build(1, cuts)

VARIABLES out, split
Init == out \in Outputs /\ split \in Splits(Len(Pieces(out)))
Next == UNCHANGED <<out, split>>

Chunks == ChunksOf(Pieces(out), split)
Agree == \A tools \in BOOLEAN : Stream(Chunks, tools, KeepRest) = NonStream(Chunks, tools)
\* the pinned reset disagrees only in the situation named by the known finding
ResetOnlyLosesAfterSplit ==
  (Stream(Chunks, TRUE, FALSE) # NonStream(Chunks, TRUE)) => SplitAfterObject(Chunks, 1, <<>>)
Emit == PrintT(ToJson([atoms |-> out, chunks |-> Chunks]))
===============================================================================

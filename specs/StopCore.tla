------------------------------- MODULE StopCore -------------------------------
(* C14 -- streamed text, stop sequences and UTF-8.                              *)
(*                                                                            *)
(* Text is a sequence over byte classes: "a" "b" "c" (ASCII), "L2" / "L3" (lead  *)
(* byte of a 2- / 3-byte character), "C" (continuation byte).  A run is a        *)
(* sequence of pieces (what one token decodes to), a list of stop strings and a *)
(* prediction limit (0 = none); after the last piece the model emits EOS.       *)
(*  - Ref(..)  : the property, as a predicate on (chunks streamed, finish reason)*)
(*  - Run(..)  : transcription of the loop in ollamarunner.processBatch with     *)
(*               FindStop / TruncateStop / ContainsStopSuffix / IncompleteUnicode*)
(*               / flushPending, giving (chunks, reason)                         *)
EXTENDS Integers, Sequences, SequencesExt, FiniteSets, TLC

RECURSIVE Join(_)
Join(ps) == IF ps = <<>> THEN <<>> ELSE Head(ps) \o Join(Tail(ps))

\* ---------------------------------------------------------------- UTF-8 over byte classes
RECURSIVE Valid(_)
Valid(s) == IF s = <<>> THEN TRUE
            ELSE IF s[1] \in {"a", "b", "c"} THEN Valid(Tail(s))
            ELSE IF s[1] = "L2" THEN Len(s) >= 2 /\ s[2] = "C" /\ Valid(SubSeq(s, 3, Len(s)))
            ELSE IF s[1] = "L3" THEN Len(s) >= 3 /\ s[2] = "C" /\ s[3] = "C" /\ Valid(SubSeq(s, 4, Len(s)))
            ELSE FALSE
\* flushPending drops bytes from the end until the text is valid
RECURSIVE TrimInvalid(_)
TrimInvalid(s) == IF Valid(s) THEN s ELSE TrimInvalid(SubSeq(s, 1, Len(s) - 1))
\* runner/common.IncompleteUnicode: the last character is still missing bytes
RECURSIVE IncFrom(_, _)
IncFrom(s, i) ==       \* i-th byte from the end, i = 1..4
  IF i >= 5 \/ i > Len(s) THEN FALSE
  ELSE LET c == s[Len(s) - i + 1] IN
       IF c = "C" THEN IncFrom(s, i + 1)
       ELSE IF c = "L2" THEN i < 2 ELSE IF c = "L3" THEN i < 3 ELSE FALSE
IncompleteUnicode(s) == IncFrom(s, 1)

\* ---------------------------------------------------------------- substring helpers
Occ(sub, s) == {i \in 1..(Len(s) - Len(sub) + 1) : SubSeq(s, i, i + Len(sub) - 1) = sub}
HasSub(sub, s) == Occ(sub, s) # {}
Index(sub, s) == IF Occ(sub, s) = {} THEN 0 ELSE CHOOSE i \in Occ(sub, s) : \A j \in Occ(sub, s) : i <= j
ContainsAny(stops, s) == \E k \in 1..Len(stops) : HasSub(stops[k], s)

\* ---------------------------------------------------------------- runner/common/stop.go
\* FindStop_ListOrder is what the pinned code did (first stop in list order that occurs anywhere);
\* the repaired code picks the stop that occurs first in the text
FindStop(s, stops, earliest) ==
  LET hits == {k \in 1..Len(stops) : HasSub(stops[k], s)} IN
  IF hits = {} THEN 0
  ELSE IF earliest
    THEN CHOOSE k \in hits : \A j \in hits : Index(stops[k], s) < Index(stops[j], s)
                                              \/ (Index(stops[k], s) = Index(stops[j], s) /\ k <= j)
    ELSE CHOOSE k \in hits : \A j \in hits : k <= j
ContainsStopSuffix(s, stops) ==
  \E k \in 1..Len(stops) : \E i \in 1..Len(stops[k]) : IsSuffix(SubSeq(stops[k], 1, i), s)
TruncJoined(pending, stop) == SubSeq(Join(pending), 1, Index(stop, Join(pending)) - 1)

\* ---------------------------------------------------------------- the loop
Flush(chunks, txt) == LET t == TrimInvalid(txt) IN IF t = <<>> THEN chunks ELSE Append(chunks, t)

RECURSIVE Loop(_, _, _, _, _, _, _)
Loop(pieces, stops, limit, earliest, pending, chunks, predicted) ==
  IF limit > 0 /\ predicted >= limit THEN <<Flush(chunks, Join(pending)), "length">>
  ELSE IF predicted >= Len(pieces) THEN <<Flush(chunks, Join(pending)), "stop">>          \* EOS sampled
  ELSE LET p2 == Append(pending, pieces[predicted + 1])
           s  == Join(p2)
           k  == FindStop(s, stops, earliest)
       IN IF k # 0 THEN <<Flush(chunks, TruncJoined(p2, stops[k])), "stop">>
          ELSE IF ContainsStopSuffix(s, stops) \/ IncompleteUnicode(s)
                 THEN Loop(pieces, stops, limit, earliest, p2, chunks, predicted + 1)
          ELSE Loop(pieces, stops, limit, earliest, <<>>, Flush(chunks, s), predicted + 1)
Run(pieces, stops, limit, earliest) == Loop(pieces, stops, limit, earliest, <<>>, <<>>, 0)

\* ---------------------------------------------------------------- the property
Gen(pieces, n) == Join(SubSeq(pieces, 1, n))
NGen(pieces, limit) == IF limit > 0 /\ limit < Len(pieces) THEN limit ELSE Len(pieces)
FirstStopPiece(pieces, stops, n) ==
  LET js == {j \in 1..n : ContainsAny(stops, Gen(pieces, j))} IN
  IF js = {} THEN 0 ELSE CHOOSE j \in js : \A i \in js : j <= i

\* res = <<chunks, reason>>.  Returns the set of clauses that are broken.
Broken(pieces, stops, limit, res) ==
  LET chunks == res[1]
      reason == res[2]
      out == Join(chunks)
      n == NGen(pieces, limit)
      k == FirstStopPiece(pieces, stops, n)
      whole == Valid(Gen(pieces, Len(pieces)))
  IN (IF ~IsPrefix(out, Gen(pieces, n)) THEN {"output-not-a-prefix-of-generated-text"} ELSE {})
  \cup (IF k # 0 /\ ContainsAny(stops, out) THEN {"output-contains-a-stop-sequence"} ELSE {})
  \cup (IF k # 0 /\ ~\E i \in 1..Len(stops) : IsPrefix(out \o stops[i], Gen(pieces, k)) THEN {"output-does-not-end-right-before-a-stop"} ELSE {})
  \cup (IF k # 0 /\ reason # "stop" THEN {"finish-reason"} ELSE {})
  \cup (IF k = 0 /\ out # TrimInvalid(Gen(pieces, n)) THEN {"output-incomplete-or-too-long"} ELSE {})
  \cup (IF k = 0 /\ reason # (IF limit > 0 /\ limit <= Len(pieces) THEN "length" ELSE "stop") THEN {"finish-reason"} ELSE {})
  \cup (IF whole /\ \E c \in 1..Len(chunks) : ~Valid(chunks[c]) THEN {"chunk-splits-a-character"} ELSE {})
  \cup (IF whole /\ \E c \in 1..Len(chunks) : ContainsAny(stops, chunks[c]) THEN {"chunk-contains-a-stop-sequence"} ELSE {})
===============================================================================

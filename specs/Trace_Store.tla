------------------------------- MODULE Trace_Store -------------------------------
(* C04 -- evaluates the store invariants on the projection of the real store that  *)
(* harness/server/vf_store_test.go records after every operation: man (name ->     *)
(* layer labels), cfg (name -> config label), fold (name -> case-folded path),     *)
(* blobs (label -> content matches its digest), listed (what /api/tags returns),   *)
(* show (name -> status of /api/show).                                             *)
EXTENDS Integers, Sequences, FiniteSets, TLC, Json, IOUtils

VARIABLES l, nbad, prev
Trace == ndJsonDeserialize(IOEnv.VF_TRACE)
Range(f) == {f[i] : i \in DOMAIN f}
Empty == [man |-> <<>>, cfg |-> <<>>, blobs |-> <<>>, fold |-> <<>>]
Init == l = 1 /\ nbad = 0 /\ prev = Empty

Refs(e, n) == Range(e.man[n]) \cup {e.cfg[n]}
AllRefs(e) == UNION {Refs(e, n) : n \in DOMAIN e.man}
Good(e, d) == d \in DOMAIN e.blobs /\ e.blobs[d]
\* the names an operation is about (any spelling of them)
Targets(e) == {n \in DOMAIN e.fold \cup DOMAIN prev.fold :
                 \E x \in {e.n} : (n = x) \/ (n \in {"a", "A"} /\ x \in {"a", "A"})}

Check(e) ==
     (IF \E n \in DOMAIN e.man : \E d \in Refs(e, n) : ~Good(e, d) THEN {"listed-model-has-missing-or-corrupt-blob"} ELSE {})
\cup (IF Range(e.listed) # DOMAIN e.man THEN {"listing-differs-from-manifests"} ELSE {})
\cup (IF \E n \in DOMAIN e.show : e.show[n] # 200 THEN {"listed-model-cannot-be-shown"} ELSE {})
\cup (IF \E a, b \in DOMAIN e.fold : a # b /\ e.fold[a] = e.fold[b] THEN {"models-differ-only-by-case"} ELSE {})
\cup (IF \E n \in DOMAIN prev.man \ Targets(e) :
           n \notin DOMAIN e.man \/ e.man[n] # prev.man[n] \/ e.cfg[n] # prev.cfg[n]
           \/ \E d \in Range(prev.man[n]) \cup {prev.cfg[n]} : (d \in DOMAIN prev.blobs /\ prev.blobs[d]) /\ ~Good(e, d)
        THEN {"operation-damaged-another-model"} ELSE {})
\cup (IF e.op = "prune" /\ e.code = 200 /\ DOMAIN e.blobs # AllRefs(e) THEN {"prune-does-not-leave-exactly-the-referenced-blobs"} ELSE {})

Step ==
  /\ l <= Len(Trace) /\ l' = l + 1
  /\ LET e == Trace[l] IN
       IF e.ev = "reset" THEN prev' = Empty /\ nbad' = nbad
       ELSE LET flags == Check(e) IN
            /\ (flags # {}) => PrintT(<<"VFBAD", l, e.t, flags>>)
            /\ nbad' = IF flags # {} THEN nbad + 1 ELSE nbad
            /\ prev' = [man |-> e.man, cfg |-> e.cfg, blobs |-> e.blobs, fold |-> e.fold]
Accepted == TLCGet("stats").diameter = Len(Trace) + 1
===============================================================================

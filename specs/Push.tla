--------------------------------- MODULE Push ---------------------------------
(* C09 (push half) -- the request-level state machine of both push              *)
(* implementations over PushCore's fault scripts.  "new": the blobs advance       *)
(* concurrently, in any interleaving, and the manifest step waits for all of them *)
(* (errgroup Wait); "legacy": one blob after the other, the first error ends the  *)
(* push.  reg = what the registry has accepted; manAt = what it had accepted when *)
(* the manifest PUT arrived.                                                      *)
EXTENDS PushCore, FiniteSetsExt, Json

CONSTANTS MaxFaults
Pairs == UNION {{<<s, x>> : x \in FaultsOf(s)} : s \in Slots}
FaultSets == {F \in UNION {kSubset(k, Pairs) : k \in 0..MaxFaults} : \A p, q \in F : p[1] = q[1] => p = q}
Script(F) == [s \in Slots |-> IF \E p \in F : p[1] = s THEN (CHOOSE p \in F : p[1] = s)[2] ELSE "ok"]

VARIABLES f, pc, tries, reg, err, manAt, result
vars == <<f, pc, tries, reg, err, manAt, result>>
First == IF Impl = "new" THEN "start" ELSE "head"
Init == /\ f \in {Script(F) : F \in FaultSets}
        /\ pc = [b \in Blobs |-> First] /\ tries = [b \in Blobs |-> 0] /\ reg = {} /\ err = {} /\ manAt = {"none"} /\ result = "running"

Fail(b) == pc' = [pc EXCEPT ![b] = "failed"] /\ err' = err \cup {b} /\ UNCHANGED <<reg, tries>>
Goto(b, p) == pc' = [pc EXCEPT ![b] = p] /\ UNCHANGED <<err, reg, tries>>
Has(b) == pc' = [pc EXCEPT ![b] = "done"] /\ reg' = reg \cup {b} /\ UNCHANGED <<err, tries>>
\* a request that is refused `failall` = on every one of the 6 tries, `fail1` = on the first try only
Retried(b, slot, next) ==
  LET x == f[<<slot, b>>] IN
  IF x = "failall" THEN IF tries[b] < 5 THEN tries' = [tries EXCEPT ![b] = @ + 1] /\ UNCHANGED <<pc, err, reg>>
                                          ELSE pc' = [pc EXCEPT ![b] = "failed"] /\ err' = err \cup {b} /\ tries' = [tries EXCEPT ![b] = 0] /\ UNCHANGED reg
  ELSE IF x = "fail1" /\ tries[b] = 0 THEN tries' = [tries EXCEPT ![b] = 1] /\ UNCHANGED <<pc, err, reg>>
  ELSE /\ tries' = [tries EXCEPT ![b] = 0] /\ UNCHANGED err
       /\ IF next = "done" THEN pc' = [pc EXCEPT ![b] = "done"] /\ reg' = reg \cup {b}
                           ELSE pc' = [pc EXCEPT ![b] = next] /\ UNCHANGED reg

\* legacy: blob b moves only when every earlier blob is done; an error ends the push
MayMove(b) == result = "running" /\ (Impl = "new" \/ (err = {} /\ \A x \in 1..(b - 1) : pc[x] = "done"))
StepBlob(b) ==
  /\ MayMove(b) /\ UNCHANGED <<f, manAt, result>>
  /\ CASE pc[b] = "head"   -> IF f[<<"head", b>>] = "5xx" THEN Fail(b) ELSE IF f[<<"head", b>>] = "exists" THEN Has(b) ELSE Goto(b, "start")
       [] pc[b] = "start"  -> IF f[<<"start", b>>] = "5xx" THEN Fail(b) ELSE IF f[<<"start", b>>] = "exists" THEN Has(b)
                              ELSE Goto(b, IF Impl = "new" THEN "put" ELSE "part")
       [] pc[b] = "put"    -> IF f[<<"put", b>>] = "5xx" THEN Fail(b) ELSE Has(b)
       [] pc[b] = "part"   -> Retried(b, "part", "commit")
       [] pc[b] = "commit" -> Retried(b, "commit", "done")
       [] OTHER -> FALSE
\* g.Wait() / the end of the loop over the layers
Finish ==
  /\ result = "running" /\ UNCHANGED <<f, pc, tries, reg, err>>
  /\ IF Impl = "new" THEN \A b \in Blobs : pc[b] \in {"done", "failed"} ELSE err # {} \/ \A b \in Blobs : pc[b] = "done"
  /\ IF err # {} THEN result' = "err" /\ manAt' = manAt
     ELSE manAt' = reg /\ result' = IF f[<<"man", 0>>] = "ok" THEN "ok" ELSE "err"
Next == Finish \/ \E b \in Blobs : StepBlob(b)
Spec == Init /\ [][Next]_vars

\* ---------------------------------------------------------------- the property, on the design
PushManifestLast == manAt # {"none"} => manAt = Blobs
SuccessMeansCommitted == result = "ok" => manAt = Blobs
\* the request-level machine and PushCore's closed form agree
AgreesWithCore == result # "running" => (result = "ok") = PushResult(f).ok /\ (manAt # {"none"}) = PushResult(f).manput
                                         /\ reg = PushResult(f).accepted

Emit == (result # "running") => PrintT(ToJson({[slot |-> s[1], b |-> s[2], f |-> f[s]] : s \in {x \in Slots : f[x] # "ok"}}))
View == <<f, pc, tries, reg, err, manAt, result>>
===============================================================================

"""C19 -- chat prompt keeps the newest messages that fit, the system messages, each image once.

ChatPrompt.tla: reference definition + transcription of chatPrompt's truncation loop (model-checked
against each other) + generator of conversations.  harness/server runs the real chatPrompt for every
conversation and every context limit around that conversation's thresholds; Trace_ChatPrompt.tla
judges the recorded prompts.
"""
import json
import time
import zlib

import vf

PROP = "C19"
MC_BODY = """
INIT Init
NEXT Next
INVARIANT LoopMeetsReference
INVARIANT LatestAlwaysIn
CONSTRAINT Emit
CHECK_DEADLOCK FALSE
"""
GEN_BODY = """
INIT Init
NEXT Next
CONSTRAINT Emit
CHECK_DEADLOCK FALSE
"""
KINDS = '{"text", "vision", "mllama", "mllamaraw"}'
STYLES = '{"legacy", "messages", "sysonce"}'


def usable(c):
    if c["kind"].startswith("mllama") and any(m["imgs"] > 1 for m in c["msgs"]):
        return False      # more than one image per message is rejected by design for mllama
    if c["kind"] == "mllama" and any(m["imgs"] for m in c["msgs"]):
        # real image preprocessing (560x560 tiles) is slow: keep a deterministic 1-in-12 sample
        return zlib.crc32(json.dumps(c, sort_keys=True).encode()) % 12 == 0
    return True


def run(tier="quick", seed=1, replay=None):
    t0 = time.time()
    res = vf.Result(PROP)
    quick = tier == "quick"
    cov = dict(states=0, transitions=0, traces_validated_against_impl=0, samples=[], evaluations=0,
               distinct_nontrivial=0)
    with vf.scratch("vf-c19-") as wd:
        if replay:
            cases = [json.loads(l) for l in open(replay) if l.strip()]
        else:
            maxm = 3 if quick else 4
            consts = {"MaxMsgs": maxm, "Kinds": KINDS, "Styles": STYLES, "CodeAsIs": "FALSE"}
            cfg = vf.write_cfg(wd, "MC_ChatPrompt.cfg", consts, MC_BODY)
            vals, r = vf.gen_exhaustive("ChatPrompt", cfg, wd, timeout=3000)
            cov["states"], cov["transitions"] = r["distinct"], r["generated"]
            cov["exhaustive"] = True
            cov["bounds"] = (f"all conversations of <= {maxm} messages over 14 message shapes x 4 model kinds x 3 template "
                             "styles, every context limit at and just below every candidate threshold")
            consts = dict(consts, MaxMsgs=6)
            cfg = vf.write_cfg(wd, "Sim_ChatPrompt.cfg", consts, GEN_BODY)
            sims, _ = vf.gen_simulate("ChatPrompt", cfg, wd, num=60 if quick else 1500, depth=8, seed=seed)
            cases = [c for c in vf.dedupe(vals + sims) if usable(c)]
            for i, c in enumerate(cases):
                c["id"] = i + 1
            cases += vf.load_witnesses(PROP)
        recs, v, _ = vf.replay_and_validate(wd, cases, "./server", "TestVFPromptReplay", ["server"], "Trace_ChatPrompt",
                                            go_timeout=1800)
        by_id = {str(c["id"]): c for c in cases}
        cov["traces_validated_against_impl"] = len(recs)
        cov["evaluations"] = len(recs)
        cov["distinct_nontrivial"] = len({json.dumps([r["kind"], r["style"], r["roles"], r["imgs"], r["cost"], r["limit"]])
                                          for r in recs if len(r["ids"]) < len(r["roles"])})
        cov["rule"] = ("record = (conversation, model kind, template style, context limit); non-trivial = at least one "
                       "message was dropped; distinct by value")
        cov["samples"] = recs[:1] + recs[len(recs) // 2:len(recs) // 2 + 1] + recs[-1:]
        shown = {}
        for ln, rid, flags in v["bad"]:
            key = tuple(flags)
            shown[key] = shown.get(key, 0) + 1
            if shown[key] > 2 or len(res.violations) >= 8:
                continue
            cid, limit = rid.split("/")
            c = dict(by_id.get(cid) or {}, limit=int(limit))
            p = vf.save_replay(PROP, f"prompt-{tier}-{seed}-{cid}-{limit}.ndjson", json.dumps(c) + "\n")
            res.violation(f"{flags}: {json.dumps(recs[ln - 1])[:600]}", p)
        cov["violating_records"] = len(v["bad"])
        cov["violation_kinds"] = {",".join(k): n for k, n in shown.items()}
        cov["checker_cmd"] = "tlc ChatPrompt.tla (MC_ChatPrompt.cfg) ; tlc Trace_ChatPrompt.tla"
    vf.write_evidence(PROP, tier, seed, "model_checking", cov, time.time() - t0, violations=len(res.violations),
                      assumptions=["message content does not itself contain [img-N] literals",
                                   "word-count tokenizer; two template styles (legacy prompt/response, messages range)",
                                   "images only on user messages; at most one image per message for mllama"])
    return res.finish()

------------------------------ MODULE Tokenizer ------------------------------
(* C20 -- Encode of both tokenizer families as a state machine: the text is     *)
(* cut at special tokens, every other fragment is looked up whole and otherwise *)
(* merged pair by pair (one step per merge, as the heap loop of                 *)
(* process_text.go / process_text_spm.go pops them), the parts become ids.      *)
(* TLC checks on every text over the unit alphabet that the parts always spell  *)
(* the text, that decoding the ids gives the text back, that ids are inside the *)
(* vocabulary, that every special literal became its id, and that the machine   *)
(* ends in one of the encodings TokenizerCore's closed definition allows; the   *)
(* same module generates the texts the harness feeds to the real tokenizers.    *)
EXTENDS TokenizerCore, TLC, Json

CONSTANTS V,          \* the vocabulary (TokenizerCore)
          Units,      \* sequence of atom sequences a text is built from
          MaxUnits

VARIABLES text, us, pc, frags, cur, skip, ids
vars == <<text, us, pc, frags, cur, skip, ids>>

Init == text = <<>> /\ us = <<>> /\ pc = "grow" /\ frags = <<>> /\ cur = 1 /\ skip = {} /\ ids = <<>>

Grow == /\ pc = "grow" /\ Len(us) < MaxUnits
        /\ \E u \in DOMAIN Units : us' = Append(us, u) /\ text' = text \o Units[u]
        /\ UNCHANGED <<pc, frags, cur, skip, ids>>

\* strings.Index splitting on the special tokens, then the whole-fragment lookup
Start == /\ pc = "grow" /\ text # <<>>
         /\ frags' = LET fs == Fragments(V, text) IN
              [i \in 1..Len(fs) |->
                 IF fs[i].id # 0 THEN [a |-> fs[i].a, id |-> fs[i].id, parts |-> <<fs[i].a>>]
                 ELSE LET n == Norm(V, fs[i].a) IN
                      [a |-> fs[i].a, id |-> 0, parts |-> IF IdOf(V, n) # 0 THEN <<n>> ELSE Singles(n)]]
         /\ pc' = "start" /\ cur' = 1
         /\ UNCHANGED <<text, us, skip, ids>>
Begin == pc = "start" /\ pc' = "merge" /\ UNCHANGED <<text, us, frags, cur, skip, ids>>

CurCand == LET ps == frags[cur].parts
               c == {i \in Cand(V, ps) : <<ps[i], ps[i + 1]>> \notin skip}
               m == {i \in c : \A o \in c : Key(V, ps, i) <= Key(V, ps, o)}
           IN IF V.fam = "bpe" THEN m ELSE {i \in m : \A o \in m : i <= o}

Merge == /\ pc = "merge" /\ cur <= Len(frags) /\ frags[cur].id = 0
         /\ \E i \in CurCand :
              LET ps == frags[cur].parts IN
              IF V.fam = "bpe" /\ IdOf(V, ps[i] \o ps[i + 1]) = 0
              THEN skip' = skip \cup {<<ps[i], ps[i + 1]>>} /\ frags' = frags     \* popped, no vocabulary entry: dropped
              ELSE frags' = [frags EXCEPT ![cur].parts = MergeAt(ps, i)] /\ skip' = skip
         /\ UNCHANGED <<text, us, pc, cur, ids>>

NextFrag == /\ pc = "merge" /\ cur <= Len(frags)
            /\ (frags[cur].id # 0 \/ CurCand = {})
            /\ cur' = cur + 1 /\ skip' = {}
            /\ UNCHANGED <<text, us, pc, frags, ids>>

Finish == /\ pc = "merge" /\ cur > Len(frags)
          /\ ids' = Flat([i \in 1..Len(frags) |-> IF frags[i].id # 0 THEN <<frags[i].id>> ELSE PartIds(V, frags[i].parts)])
          /\ pc' = "done"
          /\ UNCHANGED <<text, us, frags, cur, skip>>

Next == Grow \/ Start \/ Begin \/ Merge \/ NextFrag \/ Finish
Spec == Init /\ [][Next]_vars /\ WF_vars(Begin \/ Merge \/ NextFrag \/ Finish)

\* ------------------------------------------------------------------ invariants
PartsSpellText ==
  pc = "merge" => Flat([i \in 1..Len(frags) |-> Flat(frags[i].parts)]) = Norm(V, text)
RoundTrip == pc = "done" => DecodeBytes(V, ids) = TextBytes(V, text)
IdsInVocabulary == pc = "done" => \A i \in DOMAIN ids : ids[i] \in DOMAIN V.pieces
MachineMeetsDefinition == pc = "done" => ids \in Encodings(V, text)
\* every occurrence of a special literal starts a token that is the special token
RECURSIVE Starts(_, _, _)
Starts(is, k, off) == IF k > Len(is) THEN {} ELSE {<<off, is[k]>>} \cup Starts(is, k + 1, off + Len(PieceBytes(V, is[k])))
SpecialsEncoded ==
  pc = "done" => \A s \in Specials(V) : \A p \in 1..Len(text) :
                    OccursAt(text, V.pieces[s], p) => <<Len(TextBytes(V, SubSeq(text, 1, p - 1))), s>> \in Starts(ids, 1, 0)
Terminates == <>(pc = "done" \/ pc = "grow")

\* ------------------------------------------------------------------ generator
Emit == (pc = "start") => PrintT(ToJson([us |-> us]))
===============================================================================

--------------------------- MODULE MemEstimateCore ---------------------------
(* C16 -- llm.EstimateGPULayers / PredictServerFit over naturals.              *)
(*                                                                            *)
(* `Estimate` is a statement-by-statement transcription of the placement      *)
(* algorithm; `C16(..)` states the property on its result.  TLC checks the    *)
(* property on the transcription for every configuration in scope and the     *)
(* same configurations are replayed on the real estimator (Trace_MemEstimate  *)
(* judges the real results and compares them with the transcription).         *)
EXTENDS Integers, Sequences, FiniteSets, TLC, Json

Max(a, b) == IF a > b THEN a ELSE b
RECURSIVE SumSeq(_)
SumSeq(s) == IF s = <<>> THEN 0 ELSE Head(s) + SumSeq(Tail(s))
RemoveAt(s, k) == SubSeq(s, 1, k - 1) \o SubSeq(s, k + 1, Len(s))

\* in: [free, min : Seq(Nat); L : Seq(Nat) (size of blk.i + its kv); out, gP, gF, gzo, ov : Nat; ng : Int]
\* gP / gF are the graph sizes after the library adjustments (multi-GPU: gF = gP)

\* ---- admission: GPUs that can hold graph, minimum, the buffer layer and one more layer
RECURSIVE Admit(_, _, _, _)
Admit(in, i, ws, alloc) ==
  IF i > Len(in.free) THEN <<ws, alloc>>
  ELSE LET gz == IF ws = <<>> THEN in.gzo ELSE 0
           L0 == in.L[1]
       IN IF in.free[i] < in.ov + gz + Max(in.gP, in.gF) + in.min[i] + 2 * L0
            THEN Admit(in, i + 1, ws, alloc)
            ELSE Admit(in, i + 1, Append(ws, i), [alloc EXCEPT ![i] = in.min[i] + L0])

\* ---- one layer on the ring of GPUs with space: st = [ws, alloc, cnt, count]
RECURSIVE Ring(_, _, _, _, _)
Ring(in, st, i, j, size) ==      \* i = 0-based layer index, j = current ring size
  IF j <= 0 THEN st
  ELSE LET k == (i % j) + 1
           g == st.ws[k]
       IN IF in.free[g] > in.ov + st.alloc[g] + Max(in.gP, in.gF) + size
            THEN [st EXCEPT !.alloc[g] = @ + size, !.cnt[g] = @ + 1, !.count = @ + 1]
            ELSE Ring(in, [st EXCEPT !.ws = RemoveAt(@, k)], i, j - 1, size)

RECURSIVE Layers(_, _, _)
Layers(in, st, i) ==
  IF i >= Len(in.L) THEN st
  ELSE IF in.ng >= 0 /\ st.count >= in.ng THEN Layers(in, st, i + 1)
  ELSE Layers(in, Ring(in, st, i, Len(st.ws), in.L[i + 1]), i + 1)

\* ---- the output layer: same test, but a GPU that fails is only skipped, not dropped
RECURSIVE OutRing(_, _, _)
OutRing(in, st, j) ==
  IF j <= 0 THEN st
  ELSE LET g == st.ws[(st.count % j) + 1] IN
       IF in.free[g] > in.ov + st.alloc[g] + Max(in.gP, in.gF) + in.out
         THEN [st EXCEPT !.alloc[g] = @ + in.out, !.cnt[g] = @ + 1, !.count = @ + 1]
         ELSE OutRing(in, st, j - 1)

Estimate(in) ==
  LET n  == Len(in.free)
      B  == Len(in.L)
      a0 == Admit(in, 1, <<>>, [i \in 1..n |-> 0])
      ws0 == a0[1]
      al0 == IF ws0 = <<>> THEN a0[2] ELSE [a0[2] EXCEPT ![ws0[1]] = @ + in.gzo]
      s1 == Layers(in, [ws |-> ws0, alloc |-> al0, cnt |-> [i \in 1..n |-> 0], count |-> 0], 0)
      full1 == s1.count >= B
      ovf1 == IF full1 THEN 0 ELSE (B - s1.count) * in.L[B]
      tryOut == in.out > 0 /\ (in.ng < 0 \/ s1.count < in.ng)
      s2 == IF tryOut THEN OutRing(in, s1, Len(s1.ws)) ELSE s1
      full2 == IF tryOut /\ s2.count < B + 1 THEN FALSE ELSE full1
      ovf2 == IF tryOut /\ s2.count < B + 1 THEN ovf1 + in.out ELSE ovf1
      alloc == [i \in 1..n |-> IF s2.cnt[i] <= 0 THEN s2.alloc[i]
                               ELSE s2.alloc[i] + (IF full2 THEN in.gF ELSE in.gP)]
      vram == SumSeq(alloc)
  IN IF s2.count = 0
       THEN [layers |-> 0, sizes |-> <<>>, vram |-> 0, total |-> vram + ovf2, split |-> <<>>]
       ELSE [layers |-> s2.count, sizes |-> alloc, vram |-> vram, total |-> vram + ovf2,
             split |-> IF n > 1 THEN s2.cnt ELSE <<>>]

Fit(in, r) == IF in.ng < 0 THEN r.layers > 0 /\ r.layers >= Len(in.L) + 1
              ELSE r.layers > 0 /\ r.layers >= in.ng

\* ---------------------------------------------------------------- the property on a result
C16(in, r, fit) ==
  /\ \A i \in 1..Len(r.sizes) : r.sizes[i] > 0 => r.sizes[i] + in.ov <= in.free[i]
  /\ r.layers <= Len(in.L) + 1
  /\ (in.ng >= 0 => r.layers <= in.ng)
  /\ (r.split # <<>> => SumSeq(r.split) = r.layers)
  /\ r.total >= r.vram
  /\ (fit /\ in.ng < 0 => r.layers = Len(in.L) + 1)        \* declared to fit => everything placed
  /\ (fit /\ in.ng >= 0 => r.layers >= in.ng)               \* ... everything the user asked for
===============================================================================

--------------------------------- MODULE Names ---------------------------------
(* C13 -- enumeration of name strings and design-level check of NamesCore.       *)
EXTENDS NamesCore

\* ---------------------------------------------------------------- enumeration
\* Strings are built from segments and separators (a fully qualified name needs at least seven
\* characters, out of reach of plain enumeration over a useful alphabet): seg (sep seg)*
CONSTANTS MaxSegs, SegLevel
Segs1 == { <<>>, <<"a">>, <<"A", "1">>, <<".", ".">>, <<"a", ".", "b">>, <<"-", "a">>, <<"a", ":", "1">> }
Segs2 == Segs1 \cup { <<".">>, <<"a", "_", "-">>, <<" ">>, <<"a", "\\", "b">>, <<"a", "@", "b">> }
Segs == IF SegLevel = 1 THEN Segs1 ELSE Segs2
Seps == { <<"/">>, <<":">>, <<"/", "/">>, <<":", "/", "/">>, <<"@">> }

VARIABLES s, nseg
Init == s \in Segs /\ nseg = 1
Next == /\ nseg < MaxSegs
        /\ \E p \in Seps, g \in Segs : s' = s \o p \o g
        /\ nseg' = nseg + 1
Spec == Init /\ [][Next]_<<s, nseg>>

Confined ==
  /\ (FullyQualified(ModelParse(s)) => \A k \in 1..4 : SafeComponent(PathOf(ModelParse(s))[k]))
  /\ (FullyQualified(NamesParse(s)) => \A k \in 1..4 : SafeComponent(PathOf(NamesParse(s))[k]))
RoundTrip ==
  /\ (FullyQualified(ModelParse(s)) => ModelParse(Show(ModelParse(s))) = ModelParse(s))
  /\ (FullyQualified(NamesParse(s)) => NamesParse(Show(NamesParse(s))) = NamesParse(s))
ParsersAgree ==
  /\ (FullyQualified(NamesParse(s)) => ModelParse(Show(NamesParse(s))) = NamesParse(s))
  /\ (FullyQualified(ModelParse(s)) => NamesParse(Show(ModelParse(s))) = ModelParse(s))

Emit == PrintT(ToJson(s))
===============================================================================

----------------------------- MODULE SamplerCore -----------------------------
(* C18 -- the sets that top-k, top-p and min-p define, in exact arithmetic.    *)
(*                                                                            *)
(* A logit vector is given by its *effective weights* w[i] in Nat: the weight  *)
(* of a token after temperature scaling, i.e. logit[i] = T * ln(w[i]) (+ a     *)
(* common offset) and w[i] = 0 stands for a logit of minus infinity.  The      *)
(* softmax probability of a kept token is then w[i] / S exactly, S the sum of  *)
(* the kept weights, and every comparison of the pipeline of sample/           *)
(* transforms.go (topK -> temperature -> softmax -> topP -> minP -> cumulative *)
(* sum -> binary search) is a comparison of small integers.  p and min-p are   *)
(* given in hundredths.  `slack` moves a threshold by 1/1000 so that the judge  *)
(* never depends on how float32 rounds a comparison that is (nearly) a tie.     *)
EXTENDS Integers, Sequences, FiniteSets

Rng(f) == {f[i] : i \in DOMAIN f}
MinOf(a, b) == IF a <= b THEN a ELSE b
MaxW(w) == CHOOSE v \in Rng(w) : \A u \in Rng(w) : u <= v

\* weight at position i (1-based) of w sorted in descending order
SortedAt(w, i) ==
  CHOOSE v \in Rng(w) : /\ Cardinality({j \in DOMAIN w : w[j] > v}) < i
                        /\ i <= Cardinality({j \in DOMAIN w : w[j] >= v})
SortDesc(w) == [i \in 1..Len(w) |-> SortedAt(w, i)]

\* ---- NewSampler's normalisation of its arguments
ClampP(x) == IF x < 0 THEN 0 ELSE IF x >= 100 THEN 100 ELSE x
KEff(n, k) == IF k <= 0 \/ k >= n THEN n ELSE k

\* ---- the sorted top-k list, its prefix sums
Top(w, k) == SubSeq(SortDesc(w), 1, KEff(Len(w), k))
RECURSIVE Sum(_, _)
Sum(s, i) == IF i = 0 THEN 0 ELSE s[i] + Sum(s, i - 1)

\* top-p: shortest prefix whose cumulative probability exceeds p (everything when p = 1)
CutP(s, pn, slack) ==
  LET S == Sum(s, Len(s))
      hit == {i \in 1..Len(s) : Sum(s, i) * 100000 > (pn * 1000 + slack) * S}
  IN IF pn >= 100 \/ hit = {} THEN Len(s) ELSE CHOOSE i \in hit : \A o \in hit : i <= o

\* min-p: prefix of the tokens whose probability is at least p * (largest probability)
CutM(s, mn, slack) ==
  LET low == {i \in 1..Len(s) : s[i] * 100000 < s[1] * (mn * 1000 + slack)}
  IN IF low = {} THEN Len(s) ELSE (CHOOSE i \in low : \A o \in low : i <= o) - 1

\* number of tokens left after both filters (min-p runs on the list top-p returned)
Keep(s, pn, mn, sp, sm) == MinOf(CutP(s, ClampP(pn), sp), CutM(s, ClampP(mn), sm))
KeepExact(w, k, pn, mn) == Keep(Top(w, k), pn, mn, 0, 0)
KeepHi(w, k, pn, mn)    == Keep(Top(w, k), pn, mn, 100, -100)   \* thresholds moved in favour of the code
KeepLo(w, k, pn, mn)    == Keep(Top(w, k), pn, mn, -100, 100)
Sharp(w, k, pn, mn)     == KeepLo(w, k, pn, mn) = KeepHi(w, k, pn, mn) /\ KeepLo(w, k, pn, mn) >= 1

\* ---- the property: which token ids may be returned
SomeFinite(w) == \E i \in DOMAIN w : w[i] > 0
GreedyOk(w, t)  == t \in DOMAIN w /\ w[t] = MaxW(w)
Admissible(w, k, pn, mn, t) ==
  /\ t \in DOMAIN w
  /\ w[t] > 0
  /\ LET s == Top(w, k) h == KeepHi(w, k, pn, mn) IN h >= 1 /\ w[t] >= s[h]

\* ---- the draw: r = j / RDen of the total mass of the kept prefix; first position whose
\* ---- cumulative sum reaches it (slices.BinarySearchFunc with "value < target -> -1")
DrawPos(s, L, j, RDen) ==
  LET ok == {i \in 1..L : Sum(s, i) * RDen >= j * Sum(s, L)}
  IN CHOOSE i \in ok : \A o \in ok : i <= o
\* the draw is not within 1/1000 of a boundary between two positions
DrawClear(s, L, j, RDen) ==
  \A i \in 1..L : LET d == Sum(s, i) * RDen - j * Sum(s, L) IN
                  (IF d < 0 THEN -d ELSE d) * 1000 > RDen * Sum(s, L) \/ (j = 0)
===============================================================================

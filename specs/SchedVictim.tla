----------------------------- MODULE SchedVictim -----------------------------
(* C11 -- "making room evicts an idle runner when one exists": the choice of     *)
(* Scheduler.findRunnerToUnload over every table of up to MaxRunners loaded      *)
(* runners.  A runner is [name, ref (references held), dur (keep-alive class)]. *)
(* Victim is the reference: an idle runner if there is one, among the           *)
(* candidates the one with the shortest keep-alive, ties by model name (the      *)
(* order of ByDurationAndName).  TLC checks IdleFirst on the reference and       *)
(* enumerates the tables; harness/server calls the real function on each.        *)
EXTENDS Integers, Sequences, FiniteSets, TLC, Json

CONSTANTS MaxRunners, Refs, Durs
Names == 1..MaxRunners
VARIABLES tab        \* sequence of runners, names distinct and increasing
vars == <<tab>>

Less(a, b) == a.dur < b.dur \/ (a.dur = b.dur /\ a.name < b.name)
Rng(s) == {s[i] : i \in DOMAIN s}
MinOf(S) == CHOOSE x \in S : \A y \in S : x = y \/ Less(x, y)
Idle(t) == {r \in Rng(t) : r.ref = 0}
Victim(t) == IF Idle(t) # {} THEN MinOf(Idle(t)) ELSE MinOf(Rng(t))

Init == tab = <<>>
Next == /\ Len(tab) < MaxRunners
        /\ \E r \in Refs, d \in Durs : tab' = Append(tab, [name |-> Len(tab) + 1, ref |-> r, dur |-> d])
Spec == Init /\ [][Next]_vars

IdleFirst == tab # <<>> => (Idle(tab) # {} => Victim(tab).ref = 0)
Emit == (tab # <<>>) => PrintT(ToJson([tab |-> tab]))
===============================================================================

"""Crash driver for C12: real ollama servers (server.test -test.run TestVFServeChild = Serve()) are started,
traced with strace, killed and restarted over scratch model directories.

  strace log of one operation -> ordered file-system effects on $OLLAMA_MODELS -> every prefix of the
  effect sequence is a crash state -> the state is materialised, the real server is restarted on it
  (startup repair sequence), the store is projected, the operation is repeated over HTTP, the server
  is restarted once more and the store is compared with that of the uninterrupted run.
"""
import hashlib
import http.client
import json
import os
import re
import shutil
import signal
import subprocess
import time

import vf

EFFECT_SYSCALLS = ("openat,write,pwrite64,renameat,renameat2,rename,unlinkat,unlink,rmdir,mkdirat,mkdir,"
                   "linkat,link,symlinkat,ftruncate,truncate,copy_file_range,sendfile,newfstatat")
KILL_SYSCALLS = "openat,write,pwrite64,renameat,renameat2,unlinkat,mkdirat,linkat,ftruncate,copy_file_range"
MARK_A = "0" * 64
MARK_B = "f" * 64
HEX = re.compile(r"\\x([0-9a-f]{2})")


def unhex(s):
    return bytes(int(x, 16) for x in HEX.findall(s))


# ----------------------------------------------------------------------------- processes

class Proc:
    """A /verif child of the server test binary (serve | registry), optionally under strace."""

    def __init__(self, binary, role, wd, tag, models=None, strace_log=None, env=None, strsize="100000000"):
        self.portfile = os.path.join(wd, f"port-{tag}")
        if os.path.exists(self.portfile):
            os.remove(self.portfile)
        e = dict(os.environ)
        e.update({"VF_ROLE": role, "VF_PORTFILE": self.portfile, "HOME": os.path.join(wd, "home"), "OLLAMA_DEBUG": "0",
                  "OLLAMA_HOST": "127.0.0.1:0", "GIN_MODE": "release"})
        if models:
            e["OLLAMA_MODELS"] = models
        e.update(env or {})
        os.makedirs(e["HOME"], exist_ok=True)
        test = {"serve": "^TestVFServeChild$", "registry": "^TestVFCrashRegistry$"}[role]
        cmd = [binary, "-test.run", test, "-test.timeout", "0"]
        if strace_log:
            cmd = ["strace", "-f", "-y", "-s", strsize, "-xx", "-o", strace_log, "-e", "trace=" + EFFECT_SYSCALLS, "--"] + cmd
        self.out = open(os.path.join(wd, f"out-{tag}.log"), "wb")
        self.p = subprocess.Popen(cmd, env=e, cwd=wd, stdout=self.out, stderr=subprocess.STDOUT, start_new_session=True)
        self.port = self.pid = None
        t0 = time.time()
        while time.time() - t0 < 60:
            if os.path.exists(self.portfile):
                a, b = open(self.portfile).read().split()
                self.port, self.pid = int(a), int(b)
                break
            if self.p.poll() is not None:
                break
            time.sleep(0.01)
        if self.port is None:
            self.kill()
            raise vf.Inconclusive(f"{role} child did not come up: " + open(self.out.name, errors="replace").read()[-1500:])

    def alive(self):
        try:
            os.kill(self.pid, 0)
            return open(f"/proc/{self.pid}/stat").read().split(")")[-1].split()[0] != "Z"
        except (OSError, IndexError):
            return False

    def kill(self):
        """SIGKILL the server itself; a tracing strace then ends on its own and flushes its log."""
        if self.pid:
            try:
                os.kill(self.pid, signal.SIGKILL)
            except OSError:
                pass
        try:
            self.p.wait(timeout=20)
        except subprocess.TimeoutExpired:
            pass
        try:
            os.killpg(self.p.pid, signal.SIGKILL)
        except OSError:
            pass
        try:
            self.p.wait(timeout=20)
        except subprocess.TimeoutExpired:
            pass
        self.out.close()

    def request(self, method, path, body=None, timeout=120):
        """-> (status, body bytes); status 0 = the connection broke (server died)."""
        try:
            c = http.client.HTTPConnection("127.0.0.1", self.port, timeout=timeout)
            data = None
            hdr = {}
            if isinstance(body, (bytes, bytearray)):
                data = bytes(body)
                hdr["Content-Type"] = "application/octet-stream"
            elif body is not None:
                data = json.dumps(body).encode()
                hdr["Content-Type"] = "application/json"
            c.request(method, path, body=data, headers=hdr)
            r = c.getresponse()
            out = r.read()
            c.close()
            return r.status, out
        except (OSError, http.client.HTTPException):
            return 0, b""


# ----------------------------------------------------------------------------- operations over HTTP

SPELL = {"a": "alpha", "b": "beta", "c": "gamma"}
SYSTEMS = {"S1": "You are system one.", "S2": "You are system two."}


class World:
    def __init__(self, wd, binary, assets):
        self.wd, self.binary = wd, binary
        self.gguf = {g: open(os.path.join(assets, g + ".gguf"), "rb").read() for g in ("G1", "G2")}
        self.label = {"sha256:" + hashlib.sha256(b).hexdigest(): g for g, b in self.gguf.items()}
        for s, t in SYSTEMS.items():
            self.label["sha256:" + hashlib.sha256(t.encode()).hexdigest()] = s

    def lab(self, digest):
        digest = digest.replace("sha256-", "sha256:")
        return self.label.get(digest, "X" + digest[7:15])


def full(reg_port, n):
    return f"127.0.0.1:{reg_port}/lib/{SPELL[n]}:latest"


def do_op(world, srv, reg, op):
    """Issue one operation as a client would; -> status code (0 = server died), 200 = success."""
    kind = op["op"]
    name = full(reg.port, op["n"]) if op.get("n") else None

    def streamed(code, body):
        if code == 200 and b'"error"' in body:
            return 500
        return code
    if kind == "upload":
        d = "sha256:" + hashlib.sha256(world.gguf[op["g"]]).hexdigest()
        code, _ = srv.request("POST", "/api/blobs/" + d, world.gguf[op["g"]])
        return 200 if code == 201 else code
    if kind == "createfiles":       # what `ollama create` does: upload what HEAD reports missing, then create
        d = "sha256:" + hashlib.sha256(world.gguf[op["g"]]).hexdigest()
        code, _ = srv.request("HEAD", "/api/blobs/" + d)
        if code == 0:
            return 0
        if code != 200:
            code, _ = srv.request("POST", "/api/blobs/" + d, world.gguf[op["g"]])
            if code != 201:
                return code
        req = {"model": name, "files": {"m.gguf": d}, "stream": False}
        if op.get("s", "none") != "none":
            req["system"] = SYSTEMS[op["s"]]
        return streamed(*srv.request("POST", "/api/create", req))
    if kind == "createfrom":
        req = {"model": name, "from": full(reg.port, op["m"]), "stream": False}
        if op.get("s", "none") != "none":
            req["system"] = SYSTEMS[op["s"]]
        return streamed(*srv.request("POST", "/api/create", req))
    if kind == "copy":
        return srv.request("POST", "/api/copy", {"source": full(reg.port, op["m"]), "destination": name})[0]
    if kind == "delete":
        return srv.request("DELETE", "/api/delete", {"model": name})[0]
    if kind == "pull":
        code, _ = reg.request("GET", f"/vf/publish?n={SPELL[op['n']]}&v={op['v']}")
        if code != 200:
            raise vf.Inconclusive("registry control endpoint failed")
        return streamed(*srv.request("POST", "/api/pull", {"model": "http://" + name, "insecure": True, "stream": False}, timeout=300))
    raise ValueError(kind)


def involved(op):
    return sorted({x for x in (op.get("n"), op.get("m")) if x})


# ----------------------------------------------------------------------------- projections

def short_name(rel):
    parts = rel.split("/")
    if len(parts) == 4:
        for k, v in SPELL.items():
            if parts[2] == v:
                return k
    return rel.replace("/", "_").replace(".", "_").replace(":", "_")


def project_disk(world, root):
    man, blobs, debris = {}, {}, []
    mroot = os.path.join(root, "manifests")
    for dp, _, fns in os.walk(mroot):
        for fn in fns:
            p = os.path.join(dp, fn)
            rel = os.path.relpath(p, mroot)
            try:
                m = json.loads(open(p, "rb").read())
                layers = [world.lab(l["digest"]) for l in m.get("layers") or []]
                cfg = world.lab(m["config"]["digest"]) if m.get("config", {}).get("digest") else ""
                man[short_name(rel)] = {"ok": True, "layers": layers, "cfg": cfg}
            except (ValueError, KeyError, TypeError, AttributeError):
                man[short_name(rel)] = {"ok": False, "layers": [], "cfg": ""}
    broot = os.path.join(root, "blobs")
    if os.path.isdir(broot):
        for fn in sorted(os.listdir(broot)):
            p = os.path.join(broot, fn)
            if re.fullmatch(r"sha256-[0-9a-f]{64}", fn):
                blobs[world.lab(fn)] = hashlib.sha256(open(p, "rb").read()).hexdigest() == fn[7:]
            else:
                debris.append(path_kind("blobs/" + fn, world))
    return {"man": man, "blobs": blobs, "debris": sorted(debris)}


def project_api(world, srv, reg_port):
    code, body = srv.request("GET", "/api/tags")
    listed, show = [], {}
    if code != 200:
        return {"listed": [f"TAGS-{code}"], "show": {}}
    for m in json.loads(body).get("models") or []:
        short = m["name"]
        for k, v in SPELL.items():
            if f"/lib/{v}:" in m["name"]:
                short = k
        listed.append(short)
        show[short] = srv.request("POST", "/api/show", {"model": m["name"]})[0]
    return {"listed": sorted(listed), "show": show}


def path_obj(rel, world):
    """abstract (kind, id) of a path under $OLLAMA_MODELS"""
    m = re.fullmatch(r"blobs/sha256-([0-9a-f]{64})(-partial(-\d+)?)?", rel)
    if m:
        lab = world.lab("sha256:" + m.group(1))
        if m.group(3):
            return "partmeta", lab
        if m.group(2):
            return "partial", lab
        return "blob", lab
    if re.fullmatch(r"blobs/sha256-\d+", rel):
        return "tmp", ""
    if rel.startswith("manifests/"):
        parts = rel.split("/")
        if len(parts) == 5:
            return "man", short_name("/".join(parts[1:]))
        return "dir", ""
    if rel in ("blobs", "manifests"):
        return "dir", ""
    return "other", rel


def path_kind(rel, world):
    o, d = path_obj(rel, world)
    return o + (":" + d if d else "")


def normalise(effects):
    """-> (abstract effects without directory effects and with repeated writes collapsed, nmain = length without the
    trailing run of blob unlinks, index map: number of normalised effects contained in each prefix of `effects`)"""
    out, upto = [], []
    for e in effects:
        a = e["rec"]
        if a["o"] == "dir" or a["k"] in ("mkdir", "rmdir"):
            pass
        elif out and a["k"] == "write" and out[-1] == a:
            pass
        else:
            out.append(a)
        upto.append(len(out))
    nmain = len(out)
    while nmain > 0 and out[nmain - 1]["k"] == "unlink" and out[nmain - 1]["o"] == "blob":
        nmain -= 1
    return out, nmain, upto


# ----------------------------------------------------------------------------- file-system model

class FsModel:
    """Files as inodes (so hard links are represented), directories as a set; paths relative to root."""

    def __init__(self):
        self.inodes, self.paths, self.dirs, self.next = {}, {}, set(), 1

    @classmethod
    def load(cls, root):
        m = cls()
        seen = {}
        for dp, dns, fns in os.walk(root):
            rel = os.path.relpath(dp, root)
            if rel != ".":
                m.dirs.add(rel)
            for fn in fns:
                p = os.path.join(dp, fn)
                st = os.stat(p)
                key = (st.st_dev, st.st_ino)
                if key not in seen:
                    seen[key] = m.next
                    m.inodes[m.next] = bytearray(open(p, "rb").read())
                    m.next += 1
                m.paths[os.path.relpath(p, root)] = seen[key]
        return m

    def clone(self):
        c = FsModel()
        c.inodes = {k: bytearray(v) for k, v in self.inodes.items()}
        c.paths, c.dirs, c.next = dict(self.paths), set(self.dirs), self.next
        return c

    def canon(self, norm=True):
        """content fingerprint; temp names (random) are normalised"""
        items = []
        for p, i in self.paths.items():
            q = re.sub(r"(blobs/sha256-)\d+$", r"\1TMP", p) if norm else p
            items.append((q, hashlib.sha256(bytes(self.inodes[i])).hexdigest()))
        links = sorted(sorted(p for p, i in self.paths.items() if i == ino) for ino in set(self.paths.values())
                       if sum(1 for x in self.paths.values() if x == ino) > 1)
        return json.dumps([sorted(items), sorted(self.dirs), links])

    def materialise(self, root):
        os.makedirs(root, exist_ok=True)
        for d in sorted(self.dirs):
            os.makedirs(os.path.join(root, d), exist_ok=True)
        first = {}
        for p, i in sorted(self.paths.items()):
            dst = os.path.join(root, p)
            os.makedirs(os.path.dirname(dst), exist_ok=True)
            if i in first:
                os.link(first[i], dst)
            else:
                with open(dst, "wb") as f:
                    f.write(bytes(self.inodes[i]))
                first[i] = dst


def disk_canon(root):
    return FsModel.load(root).canon()


LINE = re.compile(r"^(\d+)\s+(.*)$")
STR = r'"((?:\\x[0-9a-f]{2})*)"'
FDP = r"(\d+)<((?:\\x[0-9a-f]{2})*)>"


def parse_strace(log_path, root, model, world):
    """Apply the log to `model` (the store before the process started). -> list of effects
    dict(i, kind, path, abs (abstract label), state index) and the indexes of the two markers; model is
    advanced in place; `snap(k)` states are rebuilt by the caller by re-applying effects."""
    root = root.rstrip("/") + "/"
    pending = {}
    fds = {}           # fd -> [inode id, position]
    effects = []       # (closure applying the effect, label dict)
    marks = {}

    def rel(pathbytes):
        p = pathbytes.decode(errors="replace")
        if p.endswith(" (deleted)"):
            p = p[:-10]
        if (p + "/").startswith(root) and len(p) > len(root) - 1:
            return p[len(root):].rstrip("/")
        return None

    def eff(kind, path, fn, extra="", to=None):
        o, d = path_obj(path, world)
        td = path_obj(to, world)[1] if to else ""
        effects.append({"kind": kind, "path": path, "abs": f"{kind}:{path_kind(path, world)}{extra}", "fn": fn,
                        "rec": {"k": kind, "o": o, "d": d, "td": td}})

    for raw in open(log_path, errors="replace"):
        m = LINE.match(raw.rstrip("\n"))
        if not m:
            continue
        pid, rest = m.group(1), m.group(2)
        if rest.endswith("<unfinished ...>"):
            pending[pid] = rest[:-len("<unfinished ...>")].rstrip()
            continue
        r = re.match(r"<\.\.\. (\w+) resumed>(.*)$", rest)
        if r:
            rest = pending.pop(pid, r.group(1) + "(") + r.group(2)
        cm = re.match(r"(\w+)\((.*)\)\s+= (-?\d+|\?)(.*)$", rest)
        if not cm:
            continue
        name, args, ret, tail = cm.group(1), cm.group(2), cm.group(3), cm.group(4)
        if ret == "?" or int(ret) < 0:
            if name == "newfstatat":
                sm = re.search(STR, args)
                if sm:
                    p = rel(unhex(sm.group(1)))
                    if p == "blobs/sha256-" + MARK_A:
                        marks["a"] = len(effects)
                    elif p == "blobs/sha256-" + MARK_B:
                        marks["b"] = len(effects)
            continue
        ret = int(ret)
        if name == "openat":
            sm = re.search(STR + r", ([A-Z_|0-9x]+)", args)
            if not sm:
                continue
            p = rel(unhex(sm.group(1)))
            flags = sm.group(2).split("|")
            if p is None or "O_DIRECTORY" in flags:
                fds.pop(ret, None)
                continue
            if p in model.dirs or (p not in model.paths and "O_CREAT" not in flags):
                fds.pop(ret, None)
                continue
            created = p not in model.paths
            if created:
                ino = model.next
                model.next += 1

                def f_create(md, p=p, ino=ino):
                    md.inodes[ino] = bytearray()
                    md.paths[p] = ino
                f_create(model)
                eff("create", p, f_create)
            ino = model.paths[p]
            if "O_TRUNC" in flags and not created and len(model.inodes[ino]) > 0:
                def f_trunc(md, ino=ino):
                    del md.inodes[ino][:]
                f_trunc(model)
                eff("trunc", p, f_trunc)
            fds[ret] = [ino, len(model.inodes[ino]) if "O_APPEND" in flags else 0]
        elif name in ("write", "pwrite64"):
            am = re.match(FDP + r", " + STR + r", (\d+)(?:, (\d+))?", args)
            if not am:
                continue
            fd = int(am.group(1))
            p = rel(unhex(am.group(2)))
            if p is None or fd not in fds:
                continue
            data = unhex(am.group(3))[:ret]
            ino, pos = fds[fd]
            off = int(am.group(5)) if name == "pwrite64" else pos
            if name == "write":
                fds[fd][1] = pos + ret

            def f_write(md, ino=ino, off=off, data=data):
                b = md.inodes[ino]
                if len(b) < off:
                    b.extend(b"\0" * (off - len(b)))
                b[off:off + len(data)] = data
            f_write(model)
            eff("write", p, f_write)
        elif name in ("copy_file_range", "sendfile"):
            if name == "copy_file_range":
                am = re.match(FDP + r", \w+, " + FDP, args)
                fin, fout = (int(am.group(1)), int(am.group(3))) if am else (None, None)
                pout = rel(unhex(am.group(4))) if am else None
            else:
                am = re.match(FDP + r", " + FDP, args)
                fout, fin = (int(am.group(1)), int(am.group(3))) if am else (None, None)
                pout = rel(unhex(am.group(2))) if am else None
            if not am or pout is None or fout not in fds or ret == 0:
                continue
            if fin not in fds:
                raise vf.Inconclusive("strace mapping: copy from an untracked descriptor: " + rest[:200])
            sino, spos = fds[fin]
            dino, dpos = fds[fout]
            data = bytes(model.inodes[sino][spos:spos + ret])
            fds[fin][1] += ret
            fds[fout][1] += ret

            def f_copy(md, ino=dino, off=dpos, data=data):
                b = md.inodes[ino]
                if len(b) < off:
                    b.extend(b"\0" * (off - len(b)))
                b[off:off + len(data)] = data
            f_copy(model)
            eff("write", pout, f_copy)
        elif name == "ftruncate":
            am = re.match(FDP + r", (\d+)", args)
            if not am or int(am.group(1)) not in fds or rel(unhex(am.group(2))) is None:
                continue
            ino = fds[int(am.group(1))][0]
            n = int(am.group(3))

            def f_ftr(md, ino=ino, n=n):
                b = md.inodes[ino]
                if len(b) > n:
                    del b[n:]
                else:
                    b.extend(b"\0" * (n - len(b)))
            if len(model.inodes[ino]) != n:
                f_ftr(model)
                eff("resize", rel(unhex(am.group(2))), f_ftr)
        elif name in ("renameat", "renameat2", "rename"):
            ss = re.findall(STR, args)
            if len(ss) < 2:
                continue
            a, b = rel(unhex(ss[0])), rel(unhex(ss[1]))
            if a is None or b is None or a not in model.paths:
                if a is not None and a in model.dirs:
                    raise vf.Inconclusive("strace mapping: directory rename not modelled")
                continue

            def f_ren(md, a=a, b=b):
                md.paths[b] = md.paths.pop(a)
            f_ren(model)
            eff("rename", a, f_ren, extra=">" + path_kind(b, world), to=b)
        elif name in ("unlinkat", "unlink", "rmdir"):
            sm = re.search(STR, args)
            p = rel(unhex(sm.group(1))) if sm else None
            if p is None:
                continue
            if p in model.paths:
                def f_unl(md, p=p):
                    md.paths.pop(p)
                f_unl(model)
                eff("unlink", p, f_unl)
            elif p in model.dirs:
                def f_rmd(md, p=p):
                    md.dirs.discard(p)
                f_rmd(model)
                eff("rmdir", p, f_rmd)
        elif name in ("mkdirat", "mkdir"):
            sm = re.search(STR, args)
            p = rel(unhex(sm.group(1))) if sm else None
            if p is None:
                continue

            def f_mk(md, p=p):
                md.dirs.add(p)
            f_mk(model)
            eff("mkdir", p, f_mk)
        elif name in ("linkat", "link"):
            ss = re.findall(STR, args)
            if len(ss) < 2:
                continue
            a, b = rel(unhex(ss[0])), rel(unhex(ss[1]))
            if a is None or b is None or a not in model.paths:
                continue

            def f_link(md, a=a, b=b):
                md.paths[b] = md.paths[a]
            f_link(model)
            eff("link", b, f_link, extra="<" + path_kind(a, world), to=a)
        elif name in ("symlinkat", "truncate"):
            sm = re.findall(STR, args)
            if any(rel(unhex(s)) is not None for s in sm):
                raise vf.Inconclusive("strace mapping: " + name + " on the store is not modelled")
        elif name == "newfstatat":
            pass
    return effects, marks

---------------------------- MODULE Trace_Sampler ----------------------------
(* C18 -- judges what the real sample.Sampler returned.  One NDJSON record per  *)
(* case (harness/sample): the effective weights w (mode "w") or magnitude       *)
(* classes o (mode "x": 0 = -Inf, 1..5 = -3e38, -1e30, 0, 1e30, 3e38, 6 = +Inf),*)
(* the raw arguments given to NewSampler, and what came back for                *)
(*   draws : injected random numbers r = j / 64 (j = 64: the largest float32    *)
(*           below 1), [j, token]                                               *)
(*   pub   : tokens from samplers made with NewSampler(seed) for several seeds  *)
(*   seqA/B/I : the same seed sampled three times (fresh sampler, fresh sampler *)
(*           again, interleaved with other samplers and the global source)      *)
(*   reuse : one sampler used on a longer vector, this one, a shorter one, this  *)
(* token = 0-based id, -1 = error returned, -2 = panic.                         *)
EXTENDS SamplerCore, TLC, Json, IOUtils

VARIABLES l, nbad
vars == <<l, nbad>>
Trace == ndJsonDeserialize(IOEnv.VF_TRACE)
RDen == 64

Init == l = 1 /\ nbad = 0

ToksOf(e) == {d[2] : d \in Rng(e.draws)} \cup Rng(e.pub) \cup Rng(e.seqA) \cup Rng(e.seqB) \cup Rng(e.seqI) \cup Rng(e.reuse)

\* mode "x": astronomically separated magnitudes -- every class below the largest has probability 0
AdmissibleX(o, k, pn, mn, t) ==
  /\ t \in DOMAIN o /\ o[t] > 0
  /\ o[t] >= Top(o, k)[KEff(Len(o), k)]
  /\ (ClampP(pn) < 100 \/ ClampP(mn) > 0) => o[t] = MaxW(o)

Case(e) ==
  LET v == IF e.mode = "w" THEN e.w ELSE e.o
      n == Len(v)
      greedy == e.tmode # "pos"
      toks == ToksOf(e)
      good == {t \in toks : t >= 0 /\ t < n}
      Adm(t) == IF greedy THEN GreedyOk(v, t + 1)
                ELSE IF e.mode = "w" THEN Admissible(v, e.k, e.pn, e.mn, t + 1)
                ELSE AdmissibleX(v, e.k, e.pn, e.mn, t + 1)
      flags ==
           (IF \E t \in toks : t >= n \/ t < -2 THEN {"token-outside-vocabulary"} ELSE {})
      \cup (IF -2 \in toks THEN {"panic"} ELSE {})
      \cup (IF -1 \in toks /\ SomeFinite(v) /\ ~(e.ovf \/ e.pinf) THEN {"error-despite-finite-logit"} ELSE {})
      \cup (IF -1 \in toks /\ SomeFinite(v) /\ (e.ovf \/ e.pinf) THEN {"error-on-overflow"} ELSE {})
      \cup (IF SomeFinite(v) /\ \E t \in good : v[t + 1] = 0 THEN {"minus-infinity-token"} ELSE {})
      \cup (IF SomeFinite(v) /\ greedy /\ \E t \in good : ~Adm(t) THEN {"greedy-not-highest"} ELSE {})
      \cup (IF SomeFinite(v) /\ ~greedy /\ \E t \in good : v[t + 1] > 0 /\ ~Adm(t) THEN {"outside-filter-set"} ELSE {})
      \cup (IF e.seqA # e.seqB \/ e.seqA # e.seqI THEN {"not-reproducible"} ELSE {})
      \* conformance: the position the draw selects, where neither a filter threshold nor the draw is near a tie
      sharp == e.mode = "w" /\ ~greedy /\ SomeFinite(v) /\ Sharp(v, e.k, e.pn, e.mn)
      s == Top(v, e.k)
      L == KeepExact(v, e.k, e.pn, e.mn)
      drift ==
           (IF sharp /\ \E d \in Rng(e.draws) : d[1] < RDen /\ d[2] >= 0 /\ d[2] < n /\ DrawClear(s, L, d[1], RDen)
                                               /\ v[d[2] + 1] # s[DrawPos(s, L, d[1], RDen)]
            THEN {"draw-selects-another-position"} ELSE {})
      \cup (IF greedy /\ SomeFinite(v) /\ \E t \in good : GreedyOk(v, t + 1) /\ \E u \in 1..t : v[u] = MaxW(v)
            THEN {"greedy-not-first-maximum"} ELSE {})
  IN /\ (flags # {}) => PrintT(<<"VFBAD", l, e.id, flags>>)
     /\ (drift # {}) => PrintT(<<"VFDRIFT", l, e.id, drift>>)
     /\ nbad' = IF flags # {} THEN nbad + 1 ELSE nbad

Step == /\ l <= Len(Trace) /\ l' = l + 1 /\ Case(Trace[l])
Spec == Init /\ [][Step]_vars
Accepted == TLCGet("stats").diameter = Len(Trace) + 1
===============================================================================

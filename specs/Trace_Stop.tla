------------------------------- MODULE Trace_Stop -------------------------------
(* C14 -- judges the chunks and finish reason the real runner streamed for every  *)
(* enumerated run by the property predicates of StopCore, and compares them with  *)
(* the transcribed loop (a difference alone is drift).                            *)
EXTENDS StopCore, Json, IOUtils

VARIABLES l, nbad
Trace == ndJsonDeserialize(IOEnv.VF_TRACE)
Init == l = 1 /\ nbad = 0

Case(e) ==
  LET res == <<e.chunks, e.reason>>
      flags == IF e.err # "" THEN {"runner-failed"} ELSE Broken(e.pieces, e.stops, e.limit, res)
      drift == IF e.err = "" /\ res # Run(e.pieces, e.stops, e.limit, TRUE) THEN {"differs-from-transcribed-loop"} ELSE {}
  IN /\ (flags # {}) => PrintT(<<"VFBAD", l, e.id, flags>>)
     /\ (drift # {}) => PrintT(<<"VFDRIFT", l, e.id, drift>>)
     /\ nbad' = IF flags # {} THEN nbad + 1 ELSE nbad
Step == /\ l <= Len(Trace) /\ l' = l + 1 /\ Case(Trace[l])
Accepted == TLCGet("stats").diameter = Len(Trace) + 1
===============================================================================

"""C05 -- GGUF written by ollama decodes to the same metadata, tensors and tensor bytes.

Gguf.tla is an independent definition of the file layout; TLC checks its consequences, enumerates
(alignment, key/value profile, tensor list) cases, the harness writes and decodes each with the
real code, and Trace_Gguf.tla judges the recorded outputs.
"""
import json
import time

import vf

PROP = "C05"
NPROTOS = 12
MC_BODY = """
INIT Init
NEXT Next
INVARIANT Aligned
INVARIANT InOrderDisjoint
INVARIANT EndIsLength
CONSTRAINT Emit
CHECK_DEADLOCK FALSE
"""


def run(tier="quick", seed=1, replay=None):
    t0 = time.time()
    res = vf.Result(PROP)
    quick = tier == "quick"
    cov = dict(states=0, transitions=0, traces_validated_against_impl=0, samples=[], evaluations=0,
               distinct_nontrivial=0)
    with vf.scratch("vf-c05-") as wd:
        if replay:
            cases = [json.loads(l) for l in open(replay) if l.strip()]
        else:
            # exhaustive enumeration = the model check of the layout's consequences
            maxt = 3 if quick else 4
            cfg = vf.write_cfg(wd, "MC_Gguf.cfg", {"Aligns": "{0, 8, 24, 32, 64}", "MaxTensors": maxt,
                                                   "NProtos": NPROTOS, "KvProfiles": "{0, 1, 2, 3}"}, MC_BODY)
            vals, r = vf.gen_exhaustive("Gguf", cfg, wd, timeout=1800)
            cov["states"], cov["transitions"] = r["distinct"], r["generated"]
            cov["exhaustive"] = True
            cov["bounds"] = f"alignments {{absent,8,24,32,64}} x 4 kv profiles x all tensor lists of <= {maxt} out of {NPROTOS} prototypes"
            cases = vals
            # deeper lists by simulation (4-5 tensors)
            cfg = vf.write_cfg(wd, "Sim_Gguf.cfg", {"Aligns": "{0, 16, 40, 48, 8, 64}", "MaxTensors": 5,
                                                    "NProtos": NPROTOS, "KvProfiles": "{0, 1, 2}"}, MC_BODY)
            sims, _ = vf.gen_simulate("Gguf", cfg, wd, num=40 if quick else 600, depth=7, seed=seed)
            cases = vf.dedupe(cases + sims)
            for i, c in enumerate(cases):
                c["id"] = i + 1
            cases += vf.load_witnesses(PROP)
        try:
            recs, v, _ = vf.replay_and_validate(wd, cases, "./fs/ggml", "TestVFGgufReplay", ["fs/ggml"], "Trace_Gguf")
        except vf.Inconclusive as ex:
            # the harness process died while writing/decoding well-formed files.  Decide whether the
            # real code crashes: sequential run must pass and the concurrent run must crash again.
            if "harness does not build" in str(ex) or "goroutine" not in str(ex):
                raise
            recs, v, _ = vf.replay_and_validate(wd, cases, "./fs/ggml", "TestVFGgufReplay", ["fs/ggml"],
                                                "Trace_Gguf", env={"VF_WORKERS": "1"})
            try:
                vf.replay_and_validate(wd, cases, "./fs/ggml", "TestVFGgufReplay", ["fs/ggml"], "Trace_Gguf")
                raise ex
            except vf.Inconclusive as ex2:
                if "goroutine" not in str(ex2):
                    raise
                p = vf.save_replay(PROP, f"gguf-{tier}-{seed}-concurrent.ndjson",
                                   "".join(json.dumps(c) + "\n" for c in cases[:2000]))
                res.violation("the process crashed (twice) while 8 goroutines wrote/decoded well-formed GGUF files "
                              "concurrently; the same cases pass sequentially: " + str(ex2)[-600:].replace("\n", " | "), p)
        by_id = {str(c["id"]): c for c in cases}
        cov["traces_validated_against_impl"] = len(recs)
        cov["evaluations"] = len(recs)
        cov["distinct_nontrivial"] = len({json.dumps([c["align"], c["kvp"], c["ts"]]) for c in cases if len(c["ts"]) >= 2})
        cov["rule"] = "case = (alignment, kv profile, tensor list); non-trivial = at least two tensors; distinct by value"
        cov["samples"] = recs[:1] + recs[len(recs) // 2:len(recs) // 2 + 1] + recs[-1:]
        shown = set()
        for ln, cid, flags in v["bad"]:
            key = tuple(flags)
            if key in shown and len(res.violations) >= 3:
                continue
            shown.add(key)
            if len(res.violations) >= 6:
                continue
            p = vf.save_replay(PROP, f"gguf-{tier}-{seed}-{cid}.ndjson", json.dumps(by_id.get(cid)) + "\n")
            res.violation(f"{flags}: {json.dumps(recs[ln - 1])[:500]}", p)
        cov["violating_cases"] = len(v["bad"])
        drift = sorted({f for _, _, fl in v["drift"] for f in fl})
        cov["drift"] = drift
        if drift:
            res.note(f"drift: layout differs from Gguf.tla without breaking C05: {drift} ({len(v['drift'])} cases)")
        cov["checker_cmd"] = "tlc Gguf.tla (MC_Gguf.cfg) ; tlc Trace_Gguf.tla"
    vf.write_evidence(PROP, tier, seed, "model_checking", cov, time.time() - t0, violations=len(res.violations),
                      assumptions=["tensor kinds limited to F32 F16 BF16 I8 I32 Q4_0 Q8_0", "little-endian v3 files",
                                   "sizes far below 2^63"])
    return res.finish()

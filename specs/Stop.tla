--------------------------------- MODULE Stop ---------------------------------
(* C14 -- enumeration of runs (pieces, stop lists, limits) and the design-level  *)
(* check: the transcribed loop satisfies the property on every run in scope.    *)
EXTENDS StopCore, Json

CONSTANTS Alphabet, MaxPieces, MaxPieceLen, StopLevel, Limits, Earliest

Piece == UNION {[1..n -> Alphabet] : n \in 1..MaxPieceLen}
PieceSeqs == UNION {[1..n -> Piece] : n \in 1..MaxPieces}

StopLists1 == { << <<"a", "b">> >>,
                << <<"b">>, <<"a", "b">> >>,
                << <<"c", "c">>, <<"a", "b">> >>,
                << <<"L2", "C">> >>,
                << <<"a", "b", "a", "b">> >>,
                << <<"a", "a", "b", "c">> >> }       \* first byte recurs before the stop is complete
StopLists2 == StopLists1 \cup
              { << <<"a", "b", "c">>, <<"c">> >>,
                << <<"a", "L2", "C">>, <<"b", "b">> >>,
                << <<"a", "a">> >>,
                << <<"b", "a">>, <<"a", "b">>, <<"c">> >>,
                <<>> }
StopLists == IF StopLevel = 1 THEN StopLists1 ELSE StopLists2

VARIABLES pieces, stops, limit
\* the generated text as a whole is valid UTF-8; characters and stops may be split anywhere
Init == pieces \in {p \in PieceSeqs : Valid(Join(p))} /\ stops \in StopLists /\ limit \in Limits
Next == UNCHANGED <<pieces, stops, limit>>

Holds == Broken(pieces, stops, limit, Run(pieces, stops, limit, Earliest)) = {}
Emit == PrintT(ToJson([pieces |-> pieces, stops |-> stops, limit |-> limit]))
===============================================================================

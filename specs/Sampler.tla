------------------------------- MODULE Sampler -------------------------------
(* C18 -- sample/samplers.go as a state machine: NewSampler's normalisation,   *)
(* the greedy shortcut, topK, temperature/softmax, topP, minP, the draw and    *)
(* the final lookup, one action per stage, over the effective weights of       *)
(* SamplerCore.  TLC checks that whatever the stages leave is the set the      *)
(* closed definitions of SamplerCore describe, that the list never becomes     *)
(* empty and that the lookup stays inside it; the same module generates the    *)
(* cases the replay harness runs through the real sampler.                     *)
(*                                                                            *)
(* Switches (TRUE = the code as it is): ClampArgs (NewSampler clamps p and     *)
(* min-p to [0, 1]), CrossingKept (topP keeps the token that crosses p),       *)
(* KHeapStrict (top-k replaces the heap minimum only for a strictly larger     *)
(* logit -- irrelevant for the kept weights, so both settings must pass).      *)
EXTENDS SamplerCore, TLC, Json

CONSTANTS Weights, MaxN, Ks, Ps, Ms, TModes, RDen,
          ClampArgs, CrossingKept

VARIABLES w, k, pn, mn, tmode, pc, lst, j, out
vars == <<w, k, pn, mn, tmode, pc, lst, j, out>>

Ids == DOMAIN w
WOf(l) == [i \in 1..Len(l) |-> w[l[i]]]

\* ids in descending order of weight, ties by id
OrderedIds ==
  LET n == Len(w)
      Before(a, b) == w[a] > w[b] \/ (w[a] = w[b] /\ a < b)
      PosOf(a) == Cardinality({b \in 1..n : Before(b, a)}) + 1
  IN [p \in 1..n |-> CHOOSE a \in 1..n : PosOf(a) = p]

Init == /\ \E n \in 1..MaxN : w \in [1..n -> Weights]
        /\ k \in Ks /\ pn \in Ps /\ mn \in Ms /\ tmode \in TModes
        /\ pc = "new" /\ lst = <<>> /\ j = 0 /\ out = 0

\* the same initial states built step by step (for tlc -simulate: j holds the target length)
InitGrow == /\ w = <<>> /\ j \in 1..MaxN /\ pc = "grow"
            /\ k = 0 /\ pn = 0 /\ mn = 0 /\ tmode = "pos" /\ lst = <<>> /\ out = 0
Grow == /\ pc = "grow" /\ Len(w) < j
        /\ \E x \in Weights : w' = Append(w, x)
        /\ UNCHANGED <<k, pn, mn, tmode, pc, lst, j, out>>
Begin == /\ pc = "grow" /\ Len(w) = j
         /\ k' \in Ks /\ pn' \in Ps /\ mn' \in Ms /\ tmode' \in TModes
         /\ j' = 0 /\ pc' = "new"
         /\ UNCHANGED <<w, lst, out>>

PE == IF ClampArgs THEN ClampP(pn) ELSE pn
ME == IF ClampArgs THEN ClampP(mn) ELSE mn

New == /\ pc = "new"
       /\ pc' = "sample"          \* the sampler now holds PE, ME: the arguments after NewSampler's clamping
       /\ UNCHANGED <<w, k, pn, mn, tmode, lst, j, out>>

Greedy == /\ pc = "sample" /\ tmode # "pos"
          /\ out' = CHOOSE t \in Ids : w[t] = MaxW(w) /\ \A u \in Ids : w[u] = MaxW(w) => t <= u
          /\ pc' = "done"
          /\ UNCHANGED <<w, k, pn, mn, tmode, lst, j>>

TopK == /\ pc = "sample" /\ tmode = "pos"
        /\ lst' = SubSeq(OrderedIds, 1, KEff(Len(w), k))
        /\ pc' = "softmax"
        /\ UNCHANGED <<w, k, pn, mn, tmode, j, out>>

\* temperature + softmax: the weights are the effective weights already
Softmax == /\ pc = "softmax" /\ pc' = "topp"
           /\ UNCHANGED <<w, k, pn, mn, tmode, lst, j, out>>

TopP == /\ pc = "topp"
        /\ LET s == WOf(lst)
               S == Sum(s, Len(s))
               hit == {i \in 1..Len(s) : Sum(s, i) * 100 > PE * S}
               cut == IF PE = 100 \/ hit = {} THEN Len(s)
                      ELSE LET i == CHOOSE x \in hit : \A o \in hit : x <= o IN IF CrossingKept THEN i ELSE i - 1
           IN lst' = SubSeq(lst, 1, cut)
        /\ pc' = "minp"
        /\ UNCHANGED <<w, k, pn, mn, tmode, j, out>>

MinP == /\ pc = "minp"
        /\ IF lst = <<>> THEN lst' = lst
           ELSE LET s == WOf(lst)
                    low == {i \in 1..Len(s) : s[i] * 100 < s[1] * ME}
                    cut == IF low = {} THEN Len(s) ELSE (CHOOSE x \in low : \A o \in low : x <= o) - 1
                IN lst' = SubSeq(lst, 1, cut)
        /\ pc' = "draw"
        /\ UNCHANGED <<w, k, pn, mn, tmode, j, out>>

Draw == /\ pc = "draw"
        /\ \E jj \in 0..RDen : j' = jj
        /\ pc' = "pick"
        /\ UNCHANGED <<w, k, pn, mn, tmode, lst, out>>

\* -1: the NaN guard (every kept weight is 0);  -2: the lookup would leave the list
Pick == /\ pc = "pick"
        /\ out' = IF lst = <<>> THEN -2
                  ELSE LET s == WOf(lst) IN
                       IF Sum(s, Len(s)) = 0 THEN -1 ELSE lst[DrawPos(s, Len(s), j, RDen)]
        /\ pc' = "done"
        /\ UNCHANGED <<w, k, pn, mn, tmode, lst, j>>

Next == New \/ Greedy \/ TopK \/ Softmax \/ TopP \/ MinP \/ Draw \/ Pick
NextGrow == Grow \/ Begin \/ Next
Spec == Init /\ [][Next]_vars

\* ------------------------------------------------------------------ invariants
NonEmpty == pc \in {"softmax", "topp", "minp", "draw", "pick"} => lst # <<>>
\* the stages compute what the closed definitions say
StagesMeetDefinition ==
  pc \in {"draw", "pick"} => Len(lst) = Keep(Top(w, k), pn, mn, 0, 0) /\ WOf(lst) = SubSeq(Top(w, k), 1, Len(lst))
ReturnsAdmissible ==
  (pc = "done" /\ SomeFinite(w)) =>
     IF tmode # "pos" THEN GreedyOk(w, out)
     ELSE /\ out \in Ids /\ w[out] > 0
          /\ LET s == Top(w, k) h == Keep(s, pn, mn, 0, 0) IN h >= 1 /\ w[out] >= s[h]
ErrorOnlyWithoutFiniteLogit == (pc = "done" /\ out < 0) => ~SomeFinite(w)
\* a token of probability zero is never the first whose cumulative sum reaches the draw
LookupInside == (pc = "done" /\ tmode = "pos" /\ out > 0) => \E i \in 1..Len(lst) : lst[i] = out

\* ------------------------------------------------------------------ generator
Emit == (pc = "sample") => PrintT(ToJson([w |-> w, k |-> k, pn |-> pn, mn |-> mn, tmode |-> tmode]))
===============================================================================

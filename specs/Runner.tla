-------------------------------- MODULE Runner --------------------------------
(* C07 -- runner/ollamarunner: prompt cache slots, batching and context shift.  *)
(*                                                                            *)
(* State: the slot records (InputCacheSlot.Inputs), an abstract KV cache per    *)
(* slot (the tokens it holds, by position), the active sequences and the batch  *)
(* loop's cursor.  Actions: Submit = NewSequence (truncation) + LoadCacheSlot   *)
(* (longest-prefix / best-slot policy, fork, trimming); Batch = one call of     *)
(* processBatch (round robin, batch filling, ShiftCacheSlot, Forward, append of *)
(* pending inputs to the record, sampling, EOS / limit).  The scripted model is *)
(* part of the spec: next token = F(tokens visible to the last input, in        *)
(* position order), so what the model is shown determines what is generated.    *)
(* Not modelled: multimodal inputs / SameBatch, disabled cache, stop strings    *)
(* (Stop.tla), sliding-window caches (KvRef.tla).                               *)
EXTENDS Integers, Sequences, FiniteSets, TLC, Json

CONSTANTS NumCtx, Parallel, BatchSize, MultiUser, CanShift,
          MaxPrompt, MaxReqs, MaxSteps, Keeps, Predicts,
          CodeAsIs,    \* TRUE: the shift-failure path erases with Remove(slot, 0, -1), which removes nothing
          UseStops     \* TRUE: requests may carry a stop sequence (of tokens; every token decodes to one piece)

Vocab == 4          \* tokens 1..3, 0 = end of sequence
Tok == 1..(Vocab - 1)
Min(a, b) == IF a < b THEN a ELSE b
Max(a, b) == IF a > b THEN a ELSE b

RECURSIVE WSum(_, _)
WSum(h, i) == IF i > Len(h) THEN 0 ELSE i * h[i] + WSum(h, i + 1)
F(h) == (WSum(h, 1) + Len(h)) % Vocab          \* the scripted model

RECURSIVE Common(_, _)
Common(a, b) == IF a = <<>> \/ b = <<>> \/ Head(a) # Head(b) THEN 0 ELSE 1 + Common(Tail(a), Tail(b))

Slots == 0..(Parallel - 1)
VARIABLES slot,     \* [Slots -> [inputs, inUse, used]]      InputCacheSlot
          kv,       \* [Slots -> Seq(Tok)]                    what the KV cache holds for the slot
          seqs,     \* [Slots -> sequence record | NoSeq]     s.seqs
          nextSeq, clock, nreq, steps, hist, outs
vars == <<slot, kv, seqs, nextSeq, clock, nreq, steps, hist, outs>>

NoSeq == [live |-> FALSE]
NoIdx == 0 - 1
Init == /\ slot = [i \in Slots |-> [inputs |-> <<>>, inUse |-> FALSE, used |-> 0]]
        /\ kv = [i \in Slots |-> <<>>]
        /\ seqs = [i \in Slots |-> NoSeq]
        /\ nextSeq = 0 /\ clock = 1 /\ nreq = 0 /\ steps = 0 /\ hist = <<>> /\ outs = <<>>

\* ---------------------------------------------------------------- NewSequence: truncation
EffKeep(p, keep) == Min(IF keep < 0 THEN Len(p) ELSE keep, NumCtx - 1)
Truncated(p, keep) ==
  IF Len(p) <= NumCtx THEN p
  ELSE LET k == EffKeep(p, keep)
           start == k + (Len(p) - NumCtx)
       IN SubSeq(p, 1, k) \o SubSeq(p, start + 1, Len(p))
Removed(p, keep) == Len(p) > NumCtx /\ EffKeep(p, keep) + (Len(p) - NumCtx) >= Len(p)

\* ---------------------------------------------------------------- LoadCacheSlot
Free == {i \in Slots : ~slot[i].inUse}
\* first slot (lowest index) with the strictly longest common prefix among `cand`
Longest(cand, p) ==
  CHOOSE i \in cand : \A j \in cand : \/ Common(slot[i].inputs, p) > Common(slot[j].inputs, p)
                                       \/ (Common(slot[i].inputs, p) = Common(slot[j].inputs, p) /\ i <= j)
Oldest == CHOOSE i \in Free : \A j \in Free : slot[i].used < slot[j].used \/ (slot[i].used = slot[j].used /\ i <= j)

\* result: [s, past, fork (source slot or -1)]
Pick(p) ==
  IF ~MultiUser THEN LET s == Longest(Free, p) IN [s |-> s, past |-> Common(slot[s].inputs, p), fork |-> NoIdx]
  ELSE LET l == Longest(Slots, p)
           n == Common(slot[l].inputs, p)
       IN IF n = Len(slot[l].inputs) /\ ~slot[l].inUse THEN [s |-> l, past |-> n, fork |-> NoIdx]
          ELSE LET o == Oldest IN
               [s |-> o, past |-> n, fork |-> IF n > 0 /\ l # o THEN l ELSE NoIdx]

SubmitOk(p0, keep) == /\ \E i \in Slots : ~seqs[i].live
                      /\ Free # {}
                      /\ ~Removed(p0, keep)
Submit(p0, keep, predict, stop) ==
  /\ SubmitOk(p0, keep)
  /\ LET p    == Truncated(p0, keep)
         pk   == Pick(p)
         s    == pk.s
         past == IF pk.past = Len(p) THEN pk.past - 1 ELSE pk.past
         base == IF pk.fork >= 0 THEN SubSeq(slot[pk.fork].inputs, 1, pk.past) ELSE slot[s].inputs
         kvb  == IF pk.fork >= 0 THEN SubSeq(kv[pk.fork], 1, pk.past) ELSE kv[s]
         idx  == CHOOSE i \in Slots : ~seqs[i].live /\ \A j \in Slots : ~seqs[j].live => i <= j
     IN /\ slot' = [slot EXCEPT ![s] = [inputs |-> SubSeq(base, 1, past), inUse |-> TRUE, used |-> clock]]
        /\ kv' = [kv EXCEPT ![s] = SubSeq(kvb, 1, past)]
        /\ seqs' = [seqs EXCEPT ![idx] = [live |-> TRUE, id |-> nreq + 1, slot |-> s, inputs |-> SubSeq(p, past + 1, Len(p)),
                                          keep |-> EffKeep(p0, keep), predict |-> predict, predicted |-> 0, out |-> <<>>,
                                          stop |-> stop, held |-> <<>>]]
        /\ hist' = Append(hist, [op |-> "submit", prompt |-> p0, keep |-> keep, predict |-> predict, stop |-> stop])
  /\ clock' = clock + 1 /\ nreq' = nreq + 1 /\ steps' = steps + 1
  /\ UNCHANGED <<nextSeq, outs>>

\* ---------------------------------------------------------------- processBatch
ShiftDiscard(len, keep) == Max(Max((NumCtx - keep) \div 2, 1) - (NumCtx - len), 0)

\* phase 1: walk the sequences round robin from nextSeq and fill the batch.
\* st = [seqs, slot, kv, n (tokens in the batch), pend (per seq index: tokens put in this batch), resume, done]
RECURSIVE Fill(_, _, _)
Fill(st, idx, left) ==
  IF left = 0 THEN st
  ELSE LET q == st.seqs[idx]
           nxt == (idx + 1) % Parallel
       IN IF ~q.live THEN Fill(st, nxt, left - 1)
          ELSE IF q.predict > 0 /\ q.predicted >= q.predict
            THEN Fill([st EXCEPT !.seqs[idx] = NoSeq, !.slot[q.slot].inUse = FALSE,
                                 !.done = Append(@, [id |-> q.id, out |-> q.out \o q.held, reason |-> "length"])], nxt, left - 1)
          ELSE LET rec == st.slot[q.slot].inputs
                   \* context shift: only when nothing of this sequence is pending (it has one input then)
                   needShift == Len(rec) + 1 > NumCtx /\ st.n + 1 <= BatchSize /\ q.inputs # <<>>
                   d  == ShiftDiscard(Len(rec), q.keep)
                   shifted == SubSeq(rec, 1, q.keep) \o SubSeq(rec, q.keep + d + 1, Len(rec))
               IN IF needShift /\ d > 0 /\ ~CanShift
                    THEN \* ErrReprocessInputs: the slot is erased and everything is fed again, next call
                         Fill([st EXCEPT !.seqs[idx].inputs = shifted \o q.inputs,
                                         !.slot[q.slot].inputs = <<>>,
                                         !.kv[q.slot] = IF CodeAsIs THEN @ ELSE <<>>], nxt, left - 1)
                    ELSE LET rec2 == IF needShift /\ d > 0 THEN shifted ELSE rec
                             kv2  == IF needShift /\ d > 0 THEN shifted ELSE st.kv[q.slot]
                             room == Min(BatchSize - st.n, NumCtx - Len(rec2))
                             take == Min(Max(room, 0), Len(q.inputs))
                             st2 == [st EXCEPT !.slot[q.slot].inputs = rec2, !.kv[q.slot] = kv2,
                                               !.n = @ + take, !.pend[idx] = SubSeq(q.inputs, 1, take),
                                               !.seqs[idx].inputs = SubSeq(q.inputs, take + 1, Len(q.inputs)),
                                               !.resume = IF @ = NoIdx /\ take = 0 /\ st.n + 1 > BatchSize THEN idx ELSE @]
                         IN Fill(st2, nxt, left - 1)

\* phase 2: forward (the cache receives the pending tokens), records grow, sample for finished prompts
RECURSIVE After(_, _)
After(st, idx) ==
  IF idx = Parallel THEN st
  ELSE LET q == st.seqs[idx] IN
       IF ~q.live \/ st.n = 0 THEN After(st, idx + 1)
       ELSE LET s    == q.slot
                rec  == st.slot[s].inputs \o st.pend[idx]
                kvn  == st.kv[s] \o st.pend[idx]
                st1  == [st EXCEPT !.slot[s].inputs = rec, !.kv[s] = kvn]
            IN IF q.inputs # <<>> THEN After(st1, idx + 1)
               ELSE LET tok == F(kvn)            \* what the model is shown is what the cache holds
                        n1  == q.predicted + 1
                        \* stop sequences (processBatch): the new piece joins the pieces held back; a stop found ends the
                        \* request, the pieces from its start on are dropped and the slot's RECORD is cut by the stop's
                        \* tokens that were already decoded -- their cache cells stay until the next LoadCacheSlot erases
                        \* everything behind the common prefix; a possible beginning of the stop holds everything back
                        h2  == q.held \o <<tok>>
                        ls  == Len(q.stop)
                        hit == ls > 0 /\ Len(h2) >= ls /\ SubSeq(h2, Len(h2) - ls + 1, Len(h2)) = q.stop
                        holds == ls > 1 /\ \E k \in 1..Min(Len(h2), ls - 1) : SubSeq(h2, Len(h2) - k + 1, Len(h2)) = SubSeq(q.stop, 1, k)
                    IN IF tok = 0
                         THEN After([st1 EXCEPT !.seqs[idx] = NoSeq, !.slot[s].inUse = FALSE,
                                                !.done = Append(@, [id |-> q.id, out |-> q.out \o q.held, reason |-> "stop"])], idx + 1)
                       ELSE IF hit
                         THEN After([st1 EXCEPT !.seqs[idx] = NoSeq, !.slot[s].inUse = FALSE,
                                                !.slot[s].inputs = SubSeq(rec, 1, Len(rec) + 1 - ls),
                                                !.done = Append(@, [id |-> q.id, out |-> q.out \o SubSeq(h2, 1, Len(h2) - ls), reason |-> "stop"])], idx + 1)
                         ELSE After([st1 EXCEPT !.seqs[idx].predicted = n1, !.seqs[idx].out = IF holds THEN q.out ELSE q.out \o h2,
                                                !.seqs[idx].held = IF holds THEN h2 ELSE <<>>,
                                                !.seqs[idx].inputs = <<tok>>], idx + 1)

BatchOk == \E i \in Slots : seqs[i].live
Batch ==
  /\ BatchOk
  /\ LET st0 == [seqs |-> seqs, slot |-> slot, kv |-> kv, n |-> 0, pend |-> [i \in Slots |-> <<>>], resume |-> NoIdx, done |-> <<>>]
         st1 == Fill(st0, nextSeq % Parallel, Parallel)
         st2 == After(st1, 0)
     IN /\ seqs' = st2.seqs /\ slot' = st2.slot /\ kv' = st2.kv
        /\ outs' = outs \o st2.done
        /\ nextSeq' = IF st1.resume # NoIdx THEN st1.resume ELSE ((nextSeq + Parallel - 1) % Parallel) + 1
  /\ hist' = Append(hist, [op |-> "batch"])
  /\ steps' = steps + 1
  /\ UNCHANGED <<clock, nreq>>

\* prompts: prefixes of two token streams that share their first two tokens, and a few that
\* diverge from the first stream after 1-3 tokens (shared and diverging prefixes, exact repeats,
\* prompts longer than the context) -- all sequences would make generation intractable
StreamA == <<1, 2, 3, 1, 2, 3, 1, 2, 2, 1>>
StreamB == <<1, 2, 1, 3, 3, 2, 1, 1, 3, 2>>
Prompts == {SubSeq(StreamA, 1, n) : n \in 1..MaxPrompt} \cup {SubSeq(StreamB, 1, n) : n \in 1..MaxPrompt}
           \cup {SubSeq(StreamA, 1, k) \o <<3, 1>> : k \in 1..3} \cup {<<3>>, <<2, 2>>}
StopSet == {<<>>, <<2, 1>>, <<1, 2>>, <<3>>, <<2, 2>>}
Stops == IF UseStops THEN StopSet ELSE {<<>>}
KeepVal(k) == IF k = 9 THEN 0 - 1 ELSE k      \* cfg files cannot hold negative numbers: 9 stands for "keep all" (-1)
Next == /\ steps < MaxSteps
        /\ \/ nreq < MaxReqs /\ \E p \in Prompts, k \in Keeps, n \in Predicts, sq \in Stops : Submit(p, KeepVal(k), n, sq)
           \/ Batch
Spec == Init /\ [][Next]_vars

\* ---------------------------------------------------------------- properties (design level)
\* (a) between batches the cache of every slot holds exactly the slot's record
\* (after a stop sequence the cache of the now idle slot may still hold the cells of the dropped stop tokens)
CacheMatchesRecord == \A i \in Slots : /\ Len(kv[i]) >= Len(slot[i].inputs) /\ SubSeq(kv[i], 1, Len(slot[i].inputs)) = slot[i].inputs
                                        /\ (slot[i].inUse => kv[i] = slot[i].inputs)
\* (b) a slot in use belongs to exactly one live sequence
SlotExclusive == \A i, j \in Slots : (seqs[i].live /\ seqs[j].live /\ seqs[i].slot = seqs[j].slot) => i = j
InUseIffLive == \A s \in Slots : slot[s].inUse <=> \E i \in Slots : seqs[i].live /\ seqs[i].slot = s
\* the context is never exceeded
WithinContext == \A i \in Slots : Len(slot[i].inputs) <= NumCtx

Emit == (steps = MaxSteps) => PrintT(ToJson(hist))
View == <<slot, kv, seqs, nextSeq, nreq, steps>>
===============================================================================

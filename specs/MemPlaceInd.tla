---------------------------- MODULE MemPlaceInd ----------------------------
(* C16 -- the reason why llm.EstimateGPULayers never plans more than a GPU has,  *)
(* for ALL sizes (unbounded integers), as an inductive invariant checked by        *)
(* Apalache.  The placement loop of MemEstimateCore (Admit, Ring, OutRing) is      *)
(* abstracted to its guard: a layer of any size s >= 0 goes to any GPU g still in   *)
(* the ring iff  free[g] > ov + alloc[g] + graph + s  (graph = max(gP, gF)), else   *)
(* g leaves the ring.  The order in which GPUs are tried and the sizes are free,    *)
(* so every run of the real loop is a run of this machine.                         *)
EXTENDS Integers

VARIABLES
  \* @type: Int -> Int;
  free,
  \* @type: Int -> Int;
  alloc,
  \* @type: Int -> Int;
  cnt,
  \* @type: Set(Int);
  ws,
  \* @type: Int;
  ov,
  \* @type: Int;
  gP,
  \* @type: Int;
  gF
G == 1..4      \* up to four GPUs (a machine with fewer: the others never enter the ring)
Graph == IF gP > gF THEN gP ELSE gF


\* what the caller reports for GPU g: the layers (and minimum memory) plus the graph when it got at least one layer
Reported(g, full) == IF cnt[g] <= 0 THEN alloc[g] ELSE alloc[g] + (IF full THEN gF ELSE gP)

TypeOK ==
  /\ free \in [G -> Nat] /\ alloc \in [G -> Nat] /\ cnt \in [G -> Nat] /\ ws \in SUBSET G
  /\ ov \in Nat /\ gP \in Nat /\ gF \in Nat

\* ---- the inductive invariant
IndInv ==
  /\ TypeOK
  /\ \A g \in G : cnt[g] > 0 => alloc[g] + Graph + ov < free[g]
  /\ \A g \in G : alloc[g] > 0 => alloc[g] + ov <= free[g]

\* ---- admission: a GPU enters the ring with minimum memory + one layer (+ the first one the extra graph part)
\*      only if  free >= ov + gz + graph + min + 2 * L0
Init ==
  /\ TypeOK
  /\ \A g \in G : cnt[g] = 0
  /\ \A g \in G : \/ g \notin ws /\ alloc[g] = 0
                  \/ g \in ws /\ \E m, l0, gz \in Nat : alloc[g] = m + l0 + gz /\ free[g] >= ov + gz + Graph + m + 2 * l0

\* ---- one layer (any size) offered to any GPU of the ring
Place(g, s) ==
  /\ g \in ws
  /\ IF free[g] > ov + alloc[g] + Graph + s
       THEN /\ alloc' = [alloc EXCEPT ![g] = @ + s] /\ cnt' = [cnt EXCEPT ![g] = @ + 1] /\ ws' = ws
       ELSE /\ ws' = ws \ {g} /\ UNCHANGED <<alloc, cnt>>
  /\ UNCHANGED <<free, ov, gP, gF>>
Next == \E g \in G : \E s \in Nat : Place(g, s)

\* ---- the property: whatever is reported for a GPU fits into its free memory less the overhead
C16 == \A g \in G : (Reported(g, TRUE) > 0 => Reported(g, TRUE) + ov <= free[g])
                 /\ (Reported(g, FALSE) > 0 => Reported(g, FALSE) + ov <= free[g])
IndInit == IndInv
=============================================================================

-------------------------------- MODULE Trace_Pull --------------------------------
(* C03 -- judges the store after every pull attempt of every fault script           *)
(* (records from harness/server/vf_pull_test.go): final[b] is what is at the final   *)
(* name of published blob b (absent / good = right SHA-256 / bad), part[b] the        *)
(* download state left for it, man what the name resolves to (absent / old / new /   *)
(* torn).  "twin" records: a second pull of another name with the same layers that   *)
(* ran concurrently with the attempt and joined its downloads.                       *)
(* VFBAD: the property is violated on the real store.  VFDRIFT: the real PullModel    *)
(* did something else than PullCore predicts for this store and these faults (with    *)
(* the constants of the cfg: the code as it is).                                     *)
EXTENDS PullCore, Json, IOUtils

VARIABLES l, nbad, m, dup
Trace == ndJsonDeserialize(IOEnv.VF_TRACE)
Rng(f) == {f[i] : i \in DOMAIN f}
Fresh(pre) == [final |-> [b \in Blobs |-> "absent"], part |-> [b \in Blobs |-> NoPart], man |-> (IF pre = "old" THEN "old" ELSE "absent")]
Init == l = 1 /\ nbad = 0 /\ m = Fresh("none") /\ dup = FALSE

FOf(e) == [s \in Slots |-> IF \E x \in Rng(e.fl) : x.slot = s[1] /\ x.b = s[2]
                            THEN (CHOOSE x \in Rng(e.fl) : x.slot = s[1] /\ x.b = s[2]).f ELSE "ok"]
Attempt(e) ==
     (IF e.err = "" /\ (e.man # "new" \/ Rng(e.final) # {"good"}) THEN {"success-with-missing-or-corrupt-layer"} ELSE {})
\cup (IF e.man = "new" /\ Rng(e.final) # {"good"} THEN {"name-resolves-to-incomplete-model"} ELSE {})
\cup (IF e.man = "torn" THEN {"name-resolves-to-unreadable-or-foreign-manifest"} ELSE {})
\cup (IF e.man = "old" /\ ~e.oldok THEN {"failed-pull-damaged-the-installed-version"} ELSE {})
\cup (IF e.last /\ e.faults = 0 /\ e.err # "" THEN {"fault-free-retry-does-not-succeed"} ELSE {})
\* the recorded store as a PullCore store (a part file of a finished or absent download counts as no part)
ObsPart(e, b) == IF e.part[b].done <= 0 THEN NoPart ELSE [done |-> e.part[b].done, good |-> e.part[b].good]
Obs(e) == [final |-> [b \in Blobs |-> e.final[b]], part |-> [b \in Blobs |-> ObsPart(e, b)], man |-> e.man]
Drift(e, p) ==
     (IF (e.err = "") # (p.outcome = "ok") THEN {"outcome-differs-from-model"} ELSE {})
\cup (IF Obs(e).final # p.final THEN {"blobs-differ-from-model"} ELSE {})
\cup (IF Obs(e).part # p.part THEN {"download-state-differs-from-model"} ELSE {})
\cup (IF e.man # p.man THEN {"manifest-differs-from-model"} ELSE {})

Step == /\ l <= Len(Trace) /\ l' = l + 1
        /\ LET e == Trace[l] IN
             IF e.ev = "reset" THEN m' = Fresh(e.pre) /\ nbad' = nbad /\ dup' = (e.pre = "dup")
             ELSE IF e.ev = "attempt" THEN
                  LET flags == Attempt(e)
                      p == AttemptResult(m, FOf(e), dup)
                      d == IF e.twin THEN {} ELSE Drift(e, p) IN      \* a concurrent twin pull is outside PullCore's prediction
                  /\ (flags # {}) => PrintT(<<"VFBAD", l, e.t, flags>>)
                  /\ (d # {}) => PrintT(<<"VFDRIFT", l, e.t, d>>)
                  /\ nbad' = IF flags # {} THEN nbad + 1 ELSE nbad
                  \* follow the real store, so that one difference does not cascade
                  /\ m' = IF e.man \in {"absent", "old", "new"} THEN Obs(e) ELSE [Obs(e) EXCEPT !.man = m.man]
                  /\ dup' = dup
             ELSE IF e.ev = "twin" THEN      \* the second, concurrent pull of another name with the same layers
                  LET flags == (IF e.err = "" /\ (e.man # "new" \/ Rng(e.final) # {"good"}) THEN {"success-with-missing-or-corrupt-layer", "joined-pull"} ELSE {})
                          \cup (IF e.man = "new" /\ Rng(e.final) # {"good"} THEN {"name-resolves-to-incomplete-model", "joined-pull"} ELSE {})
                          \cup (IF e.man = "torn" THEN {"name-resolves-to-unreadable-or-foreign-manifest", "joined-pull"} ELSE {}) IN
                  /\ (flags # {}) => PrintT(<<"VFBAD", l, e.t, flags>>)
                  /\ nbad' = IF flags # {} THEN nbad + 1 ELSE nbad
                  /\ m' = m /\ dup' = dup
             ELSE LET flags == IF e.ev = "crash" THEN {"registry-response-crashed-the-server"} ELSE {} IN
                  /\ (flags # {}) => PrintT(<<"VFBAD", l, e.t, flags>>)
                  /\ nbad' = IF flags # {} THEN nbad + 1 ELSE nbad
                  /\ m' = m /\ dup' = dup
Accepted == TLCGet("stats").diameter = Len(Trace) + 1
===============================================================================

"""C01 -- scheduler family, see sched_common.py, specs/Sched.tla, specs/Trace_Sched.tla."""
import sched_common


def run(tier="quick", seed=1, replay=None):
    return sched_common.run("C01", tier, seed, replay)

---------------------------- MODULE TokenizerCore ----------------------------
(* C20 -- both tokenizer families of model/process_text*.go over *atoms*.       *)
(*                                                                            *)
(* BPE  (family "bpe"): an atom is a byte (the byte <-> rune remapping of       *)
(*      Encode/Decode is a bijection that the harness applies with its own     *)
(*      table when it builds the vocabulary, so the model never sees it).      *)
(* SPM  (family "spm"): an atom is a rune; a blank is the rune 9601 inside the  *)
(*      vocabulary and is mapped there / back by Encode / Decode; a rune that  *)
(*      is no piece falls back to the byte tokens of its UTF-8 encoding.       *)
(*                                                                            *)
(* A vocabulary V is a record                                                  *)
(*   fam    : "bpe" | "spm"                                                     *)
(*   pieces : sequence of atom sequences; token id = index - 1                 *)
(*   ctrl   : set of indices of control tokens (split out before anything else)*)
(*   merges : bpe: sequence of <<left, right>> atom sequences, rank = index     *)
(*   score  : spm: sequence of integers parallel to pieces                     *)
(*   nbyte  : spm: the first nbyte pieces are the byte tokens "<0xNN>" of the   *)
(*            bytes 0 .. nbyte-1 (their surface is the 6 ASCII atoms)          *)
EXTENDS Integers, Sequences, FiniteSets

Rg(f) == {f[i] : i \in DOMAIN f}
RECURSIVE Flat(_)
Flat(ss) == IF ss = <<>> THEN <<>> ELSE Head(ss) \o Flat(Tail(ss))
Blank == 32
Mark == 9601

\* ---------------------------------------------------------------- UTF-8 of a rune
Utf8(r) ==
  IF r < 128 THEN <<r>>
  ELSE IF r < 2048 THEN <<192 + r \div 64, 128 + (r % 64)>>
  ELSE IF r < 65536 THEN <<224 + r \div 4096, 128 + ((r \div 64) % 64), 128 + (r % 64)>>
  ELSE <<240 + r \div 262144, 128 + ((r \div 4096) % 64), 128 + ((r \div 64) % 64), 128 + (r % 64)>>
RECURSIVE Utf8Seq(_)
Utf8Seq(rs) == IF rs = <<>> THEN <<>> ELSE Utf8(Head(rs)) \o Utf8Seq(Tail(rs))

\* ---------------------------------------------------------------- vocabulary lookups
IdOf(V, p) == IF \E i \in DOMAIN V.pieces : V.pieces[i] = p
              THEN CHOOSE i \in DOMAIN V.pieces : V.pieces[i] = p /\ \A o \in DOMAIN V.pieces : V.pieces[o] = p => i >= o
              ELSE 0          \* a map built by a loop keeps the last index of a repeated value
Rank(V, a, b) == IF \E i \in DOMAIN V.merges : V.merges[i] = <<a, b>>
                 THEN CHOOSE i \in DOMAIN V.merges : V.merges[i] = <<a, b>> /\ \A o \in DOMAIN V.merges : V.merges[o] = <<a, b>> => i >= o
                 ELSE 0
\* ids 105 and 106 (0-based) are special whatever their type (Vocabulary.SpecialVocabulary)
Specials(V) == V.ctrl \cup ({106, 107} \cap DOMAIN V.pieces)

\* ---------------------------------------------------------------- special tokens first
\* fragments: sequence of [a |-> atoms, id |-> piece index or 0]
OccursAt(t, lit, p) == p + Len(lit) - 1 <= Len(t) /\ SubSeq(t, p, p + Len(lit) - 1) = lit
FirstOcc(t, lit) == IF lit # <<>> /\ \E p \in 1..Len(t) : OccursAt(t, lit, p)
                    THEN CHOOSE p \in 1..Len(t) : OccursAt(t, lit, p) /\ \A o \in 1..(p - 1) : ~OccursAt(t, lit, o)
                    ELSE 0
RECURSIVE SplitOne(_, _, _)
SplitOne(t, lit, id) ==
  LET p == FirstOcc(t, lit) IN
  IF t = <<>> THEN <<>>
  ELSE IF p = 0 THEN <<[a |-> t, id |-> 0]>>
  ELSE (IF p > 1 THEN <<[a |-> SubSeq(t, 1, p - 1), id |-> 0]>> ELSE <<>>)
       \o <<[a |-> lit, id |-> id]>> \o SplitOne(SubSeq(t, p + Len(lit), Len(t)), lit, id)
RECURSIVE SplitFrags(_, _, _)
SplitFrags(fs, lit, id) ==
  IF fs = <<>> THEN <<>>
  ELSE (IF Head(fs).id # 0 THEN <<Head(fs)>> ELSE SplitOne(Head(fs).a, lit, id)) \o SplitFrags(Tail(fs), lit, id)
RECURSIVE SplitAll(_, _, _)
SplitAll(V, fs, todo) ==       \* todo: the special indices still to do, taken in increasing order
  IF todo = {} THEN fs
  ELSE LET s == CHOOSE x \in todo : \A o \in todo : x <= o
       IN SplitAll(V, SplitFrags(fs, V.pieces[s], s), todo \ {s})
Fragments(V, text) == IF text = <<>> THEN <<>> ELSE SplitAll(V, <<[a |-> text, id |-> 0]>>, Specials(V))

\* ---------------------------------------------------------------- the merge loop
\* parts: sequence of atom sequences.  Positions whose neighbours may be merged now:
Cand(V, parts) ==
  {i \in 1..(Len(parts) - 1) :
      IF V.fam = "bpe" THEN Rank(V, parts[i], parts[i + 1]) # 0
      ELSE IdOf(V, parts[i] \o parts[i + 1]) # 0}
Key(V, parts, i) == IF V.fam = "bpe" THEN Rank(V, parts[i], parts[i + 1])
                    ELSE 0 - V.score[IdOf(V, parts[i] \o parts[i + 1])]
\* bpe: lowest rank (equal ranks: any position -- the heap is not stable); spm: highest score, leftmost
Best(V, parts) ==
  LET c == Cand(V, parts)
      m == {i \in c : \A o \in c : Key(V, parts, i) <= Key(V, parts, o)}
  IN IF V.fam = "bpe" THEN m ELSE {i \in m : \A o \in m : i <= o}
MergeAt(parts, i) == SubSeq(parts, 1, i - 1) \o <<parts[i] \o parts[i + 1]>> \o SubSeq(parts, i + 2, Len(parts))
RECURSIVE Finals(_, _, _)
\* all final part lists; `skip`: bpe pairs (as <<left, right>>) popped and found without vocabulary entry
Finals(V, parts, skip) ==
  LET c == {i \in Cand(V, parts) : <<parts[i], parts[i + 1]>> \notin skip}
      m == {i \in c : \A o \in c : Key(V, parts, i) <= Key(V, parts, o)}
      b == IF V.fam = "bpe" THEN m ELSE {i \in m : \A o \in m : i <= o}
  IN IF b = {} THEN {parts}
     ELSE UNION {IF V.fam = "bpe" /\ IdOf(V, parts[i] \o parts[i + 1]) = 0
                 THEN Finals(V, parts, skip \cup {<<parts[i], parts[i + 1]>>})
                 ELSE Finals(V, MergeAt(parts, i), skip) : i \in b}

Singles(t) == [i \in 1..Len(t) |-> <<t[i]>>]
Norm(V, t) == IF V.fam = "spm" THEN [i \in 1..Len(t) |-> IF t[i] = Blank THEN Mark ELSE t[i]] ELSE t

\* ids (1-based piece indices) of one final part list
ByteTok(V, b) == b + 1
RECURSIVE PartIds(_, _)
PartIds(V, parts) ==
  IF parts = <<>> THEN <<>>
  ELSE LET p == Head(parts) id == IdOf(V, p) IN
       (IF id # 0 THEN <<id>>
        ELSE IF V.fam = "spm" THEN LET bs == Utf8Seq(p) IN [k \in 1..Len(bs) |-> ByteTok(V, bs[k])]   \* byte fallback
        ELSE <<>>)                                                      \* bpe: silently dropped
       \o PartIds(V, Tail(parts))
\* one fragment without special tokens: the whole fragment if it is a piece, else the merge loop
FragIdSets(V, t) ==
  LET n == Norm(V, t) IN
  IF IdOf(V, n) # 0 THEN {<<IdOf(V, n)>>} ELSE {PartIds(V, ps) : ps \in Finals(V, Singles(n), {})}
RECURSIVE EncodeSets(_, _)
EncodeSets(V, fs) ==
  IF fs = <<>> THEN {<<>>}
  ELSE LET h == IF Head(fs).id # 0 THEN {<<Head(fs).id>>} ELSE FragIdSets(V, Head(fs).a)
       IN {x \o y : x \in h, y \in EncodeSets(V, Tail(fs))}
\* every id sequence the encoder may produce for `text` (one chunk per fragment: whole-text pre-tokenizer)
Encodings(V, text) == EncodeSets(V, Fragments(V, text))

\* ---------------------------------------------------------------- decoding, as bytes
PieceBytes(V, id) ==
  IF V.fam = "bpe" THEN V.pieces[id]
  ELSE IF id <= V.nbyte THEN <<id - 1>>
  ELSE Utf8Seq([i \in 1..Len(V.pieces[id]) |-> IF V.pieces[id][i] = Mark THEN Blank ELSE V.pieces[id][i]])
RECURSIVE DecodeBytes(_, _)
DecodeBytes(V, ids) == IF ids = <<>> THEN <<>> ELSE PieceBytes(V, Head(ids)) \o DecodeBytes(V, Tail(ids))
TextBytes(V, text) == IF V.fam = "bpe" THEN text ELSE Utf8Seq(text)
===============================================================================

package ggml

// /verif harness for C05: every enumerated (alignment, kv profile, tensor list) is written with
// the real WriteGGUF, decoded with the real Decode, and what was found is recorded for
// specs/Trace_Gguf.tla.  No verdict is taken here.

import (
	"bufio"
	"bytes"
	"encoding/json"
	"fmt"
	"os"
	"path/filepath"
	"reflect"
	"slices"
	"strings"
	"sync"
	"testing"
)

type vfGgufProto struct {
	Kind  uint32   `json:"kind"`
	Shape []uint64 `json:"shape"`
	Blk   int      `json:"blk"`
}

type vfGgufCase struct {
	Id    int           `json:"id"`
	Align uint32        `json:"align"`
	Kvp   int           `json:"kvp"`
	Ts    []vfGgufProto `json:"ts"`
}

func vfGgufKV(profile int) KV {
	kv := KV{"general.architecture": "vf"}
	switch profile {
	case 1:
		kv["a.u32"] = uint32(7)
		kv["a.f32"] = float32(1.5)
		kv["a.bool"] = true
		kv["a.str"] = "hello"
		kv["a.i32s"] = []int32{-1, 0, 1}
		kv["a.u32s"] = []uint32{1, 2, 3, 4}
		kv["a.f32s"] = []float32{0.25, -2}
		kv["a.strs"] = []string{"x", "yz", ""}
	case 2:
		kv["e.str"] = ""
		kv["e.strs"] = []string{}
		kv["e.i32s"] = []int32{}
		kv["e.f32s"] = []float32{}
		kv["e.bool"] = false
	case 3:
		kv["l.str"] = strings.Repeat("é", 9000) // longer than the decoder's scratch buffer
		big := make([]uint32, 1100)               // more than the default maxArraySize
		for i := range big {
			big[i] = uint32(i * 3)
		}
		kv["l.u32s"] = big
		kv["tokenizer.ggml.tokens"] = []string{"a", "b", "c"}
	}
	return kv
}

func vfGgufDescribe(kv KV) []map[string]any {
	keys := make([]string, 0, len(kv))
	for k := range kv {
		keys = append(keys, k)
	}
	slices.Sort(keys)
	var out []map[string]any
	for _, k := range keys {
		d := map[string]any{"klen": len(k)}
		switch v := kv[k].(type) {
		case uint32:
			d["t"] = "u32"
		case float32:
			d["t"] = "f32"
		case bool:
			d["t"] = "bool"
		case string:
			d["t"], d["n"] = "str", len(v)
		case []int32:
			d["t"], d["et"], d["n"] = "arr", "i32", len(v)
		case []uint32:
			d["t"], d["et"], d["n"] = "arr", "u32", len(v)
		case []float32:
			d["t"], d["et"], d["n"] = "arr", "f32", len(v)
		case []string:
			lens := make([]int, len(v))
			for i := range v {
				lens[i] = len(v[i])
			}
			d["t"], d["et"], d["n"], d["lens"] = "arr", "str", len(v), lens
		}
		out = append(out, d)
	}
	return out
}

// normal form of a value for comparison: arrays become []any
func vfGgufNorm(v any) any {
	switch v := v.(type) {
	case *array:
		if v == nil {
			return nil
		}
		if v.size != len(v.values) {
			return fmt.Sprintf("array size %d with %d values", v.size, len(v.values))
		}
		return append([]any{}, v.values...)
	case []int32, []uint32, []float32, []string:
		rv := reflect.ValueOf(v)
		out := make([]any, rv.Len())
		for i := range out {
			out[i] = rv.Index(i).Interface()
		}
		return out
	}
	return v
}

func vfGgufName(i int, p vfGgufProto) string {
	if p.Blk >= 0 {
		return fmt.Sprintf("blk.%d.t%d.weight", p.Blk, i)
	}
	return fmt.Sprintf("t%d.weight", i)
}

func vfGgufFill(i int, n uint64) []byte {
	b := make([]byte, n)
	for j := range b {
		b[j] = byte(17*(i+1) + j%5)
	}
	return b
}

func vfGgufRun(dir string, c vfGgufCase) (rec map[string]any) {
	rec = map[string]any{"ev": "case", "id": c.Id, "align": 32, "kvok": false, "ts": []any{}, "kv": []any{},
		"dataoff": 0, "end": 0, "flen": 0, "err": ""}
	defer func() {
		if r := recover(); r != nil {
			rec["err"] = fmt.Sprint("panic: ", r)
		}
	}()
	kv := vfGgufKV(c.Kvp)
	if c.Align != 0 {
		kv["general.alignment"] = c.Align
		rec["align"] = c.Align
	}
	rec["kv"] = vfGgufDescribe(kv)
	written := map[string]int{}
	ts := make([]Tensor, len(c.Ts))
	sizes := make([]uint64, len(c.Ts)) // WriteGGUF sorts ts in place
	for i, p := range c.Ts {
		ts[i] = Tensor{Name: vfGgufName(i, p), Kind: p.Kind, Shape: slices.Clone(p.Shape)}
		ts[i].WriterTo = bytes.NewReader(vfGgufFill(i, ts[i].Size()))
		written[ts[i].Name] = i
		sizes[i] = ts[i].Size()
	}
	path := filepath.Join(dir, "m.gguf")
	f, err := os.Create(path)
	if err != nil {
		rec["err"] = err.Error()
		return
	}
	defer f.Close()
	if err := WriteGGUF(f, kv, ts); err != nil {
		rec["err"] = "write: " + err.Error()
		return
	}
	st, _ := f.Stat()
	rec["flen"] = st.Size()
	if _, err := f.Seek(0, 0); err != nil {
		rec["err"] = err.Error()
		return
	}
	m, end, err := Decode(f, -1)
	if err != nil {
		rec["err"] = "decode: " + err.Error()
		return
	}
	rec["end"] = end
	// key/values
	got := m.KV()
	kvok := true
	var why []string
	for k, v := range kv {
		g, ok := got[k]
		if !ok || !reflect.DeepEqual(vfGgufNorm(g), vfGgufNorm(v)) {
			kvok = false
			why = append(why, k)
		}
	}
	for k := range got {
		if _, ok := kv[k]; !ok && k != "general.parameter_count" {
			kvok = false
			why = append(why, "+"+k)
		}
	}
	rec["kvok"] = kvok
	if !kvok {
		rec["kvwhy"] = why
	}
	// tensors
	dts := m.Tensors()
	rec["dataoff"] = dts.Offset
	data, _ := os.ReadFile(path)
	out := []any{}
	seen := map[string]bool{}
	for _, t := range dts.Items() {
		i, ok := written[t.Name]
		e := map[string]any{"nlen": len(t.Name), "kind": t.Kind, "shape": t.Shape, "size": t.Size(), "off": t.Offset,
			"metaok": false, "bytesok": false}
		if ok && !seen[t.Name] {
			seen[t.Name] = true
			p := c.Ts[i]
			rev := slices.Clone(p.Shape)
			slices.Reverse(rev)
			e["metaok"] = t.Kind == p.Kind && slices.Equal(t.Shape, rev)
			want := vfGgufFill(i, sizes[i])
			lo := dts.Offset + t.Offset
			hi := lo + uint64(len(want))
			e["bytesok"] = hi <= uint64(len(data)) && bytes.Equal(data[lo:hi], want)
		}
		out = append(out, e)
	}
	if len(seen) != len(written) {
		// a written tensor is missing from the decoded list
		out = append(out, map[string]any{"nlen": 0, "kind": 24, "shape": []uint64{0}, "size": 0, "off": 0, "metaok": false, "bytesok": true})
	}
	rec["ts"] = out
	return rec
}

func TestVFGgufReplay(t *testing.T) {
	inPath, outPath := os.Getenv("VF_IN"), os.Getenv("VF_OUT")
	if inPath == "" || outPath == "" {
		t.Skip("VF_IN / VF_OUT not set")
	}
	in, err := os.Open(inPath)
	if err != nil {
		t.Fatal(err)
	}
	defer in.Close()
	out, err := os.Create(outPath)
	if err != nil {
		t.Fatal(err)
	}
	defer out.Close()
	w := bufio.NewWriterSize(out, 1<<20)
	defer w.Flush()
	enc := json.NewEncoder(w)
	sc := bufio.NewScanner(in)
	sc.Buffer(make([]byte, 1<<20), 1<<26)
	var cases []vfGgufCase
	for sc.Scan() {
		var c vfGgufCase
		if err := json.Unmarshal(sc.Bytes(), &c); err != nil {
			t.Fatalf("bad case: %v", err)
		}
		cases = append(cases, c)
	}
	// cases are independent: run them on several goroutines (each with its own file), which
	// also exercises concurrent encodes/decodes the way concurrent API requests would
	workers := 8
	if v := os.Getenv("VF_WORKERS"); v != "" {
		fmt.Sscan(v, &workers)
	}
	recs := make([]map[string]any, len(cases))
	var wg sync.WaitGroup
	for wk := 0; wk < workers; wk++ {
		wg.Add(1)
		go func(wk int) {
			defer wg.Done()
			dir, err := os.MkdirTemp("", "vfgguf")
			if err != nil {
				panic(err)
			}
			defer os.RemoveAll(dir)
			for i := wk; i < len(cases); i += workers {
				recs[i] = vfGgufRun(dir, cases[i])
			}
		}(wk)
	}
	wg.Wait()
	for _, r := range recs {
		enc.Encode(r)
	}
	fmt.Printf("VF replayed=%d\n", len(cases))
}

"""C10 -- untrusted model files produce an error, never a crash or runaway allocation.

GgufMut.tla names the fields of a small valid GGUF and the value classes each is driven through and
enumerates single/double mutations, truncations, versions 1-3 and both byte orders; the harness
materialises each file and decodes it with the real Decode in a child process under an address-space
limit (panic / fatal error / timeout / allocation are observations); Trace_GgufDecode.tla judges.
"""
import json
import os
import time

import vf

PROP = "C10"
GEN_BODY = """
INIT Init
NEXT Next
CONSTRAINT Emit
CHECK_DEADLOCK FALSE
"""


def run(tier="quick", seed=1, replay=None):
    t0 = time.time()
    res = vf.Result(PROP)
    quick = tier == "quick"
    cov = dict(states=0, transitions=0, traces_validated_against_impl=0, samples=[], evaluations=0,
               distinct_nontrivial=0)
    with vf.scratch("vf-c10-") as wd:
        if replay:
            cases = [json.loads(l) for l in open(replay) if l.strip()]
        else:
            cfg = vf.write_cfg(wd, "Gen_GgufMut1.cfg", {"Versions": "{1, 2, 3}", "Orders": '{"le", "be"}', "MaxMuts": 1,
                                                        "Pairs": '"none"'}, GEN_BODY)
            singles, r = vf.gen_exhaustive("GgufMut", cfg, wd)
            cov["states"], cov["transitions"] = r["distinct"], r["generated"]
            cfg = vf.write_cfg(wd, "Gen_GgufMut2.cfg", {"Versions": "{3}" if quick else "{2, 3}", "Orders": '{"le"}', "MaxMuts": 2,
                                                        "Pairs": '"all"'}, GEN_BODY)
            if quick:
                pairs, _ = vf.gen_simulate("GgufMut", cfg, wd, num=300, depth=4, seed=seed)
            else:
                pairs, r2 = vf.gen_exhaustive("GgufMut", cfg, wd, timeout=3000)
                cov["states"] += r2["distinct"]
                cov["transitions"] += r2["generated"]
            cov["exhaustive"] = True
            cov["bounds"] = ("every single mutation (23 fields x their value classes, 11 truncation points) x versions 1-3 x both byte "
                             "orders; pairs of mutations " + ("sampled" if quick else "exhaustively for versions 2-3"))
            cases = []
            for c in vf.dedupe(singles + pairs):
                for mx in (0, -1):
                    cases.append(dict(ver=c["ver"], be=c["be"], muts=c["muts"], max=mx, big=c.get("big", False)))
            for i, c in enumerate(cases):
                c["id"] = i + 1
            cases += vf.load_witnesses(PROP)
        files = os.path.join(wd, "files")
        os.makedirs(files)
        for i, c in enumerate(cases):        # the API clause is exercised on a deterministic sample of the v3 files
            c["api"] = False
        inp = os.path.join(wd, "cases.ndjson")
        with open(inp, "w") as f:
            for c in cases:
                f.write(json.dumps(c) + "\n")
        t1, t2, trace = (os.path.join(wd, x) for x in ("t1.ndjson", "t2.ndjson", "trace.ndjson"))
        rc, out = vf.go_test2("./fs/ggml", "^TestVFDecodeReplay$", wd, vf.harness_overlay(["fs/ggml"]),
                              env=dict(VF_IN=inp, VF_OUT=t1, VF_KEEP_FILES=files), timeout=3000)
        if rc != 0 or "VF replayed=" not in out:
            raise vf.Inconclusive("decode harness failed:\n" + out[-3000:])
        keep = sorted(os.listdir(files), key=lambda x: int(x.split(".")[0]))
        step = max(1, len(keep) // (250 if quick else 2500))
        always = {str(c["id"]) for c in cases if any(m["f"] in ("kv3_type", "t1_shape0") for m in c.get("muts", [])) and len(c.get("muts", [])) == 1}
        for i, fn in enumerate(keep):
            if i % step and fn.split(".")[0] not in always:
                os.remove(os.path.join(files, fn))
        rc, out2 = vf.go_test2("./server", "^TestVFApiReplay$", wd, vf.harness_overlay(["server"]),
                               env=dict(VF_FILES=files, VF_OUT=t2), timeout=3000)
        if rc != 0 or "VF replayed=" not in out2:
            raise vf.Inconclusive("API harness failed:\n" + out2[-3000:])
        with open(trace, "w") as f:
            for p in (t1, t2):
                f.write(open(p).read())
        with open(os.path.join(wd, "Trace_GgufDecode.cfg"), "w") as f:
            f.write(vf.TRACE_CFG)
        v = vf.validate_trace("Trace_GgufDecode", "Trace_GgufDecode.cfg", trace, wd, timeout=3000)
        allrecs = vf.read_ndjson(trace)
        apirecs = [r for r in allrecs if r["ev"] == "api"]
        recs = [r for r in allrecs if r["ev"] == "decode"]
        cov["api_files"] = len(apirecs)
        cov["api_outcomes"] = {"created": sum(1 for r in apirecs if r["create"] == 200), "refused": sum(1 for r in apirecs if r["create"] >= 400),
                               "server_died": sum(1 for r in apirecs if not r["alive"])}
        if sum(1 for r in recs if r["outcome"] == "harness") > len(recs) // 20:
            raise vf.Inconclusive("child processes did not run: " + json.dumps([r for r in recs if r["outcome"] == "harness"][:2]))
        by_id = {str(c["id"]): c for c in cases}
        cov["traces_validated_against_impl"] = len(recs)
        cov["evaluations"] = len(recs)
        cov["outcomes"] = {o: sum(1 for r in recs if r["outcome"] == o) for o in sorted({r["outcome"] for r in recs})}
        cov["distinct_nontrivial"] = len({json.dumps([c["ver"], c["be"], c["muts"], c["max"], c.get("big")], sort_keys=True) for c in cases if c["muts"]})
        cov["rule"] = "case = (version, byte order, mutated fields, maxArraySize); non-trivial = at least one field mutated; distinct by value"
        cov["samples"] = recs[:1] + recs[len(recs) // 2:len(recs) // 2 + 1] + [by_id[str(recs[len(recs) // 2]["id"])]]
        shown = {}
        for ln, cid, flags in v["bad"]:
            c = by_id.get(cid, {})
            key = (tuple(flags), tuple(sorted(m["f"] + "=" + m["v"] for m in c.get("muts", []))))
            kk = tuple(flags)
            shown[kk] = shown.get(kk, 0) + 1
            if shown[kk] > 3 or len(res.violations) >= 10:
                continue
            p = vf.save_replay(PROP, f"decode-{tier}-{seed}-{cid}.ndjson", json.dumps(c) + "\n")
            res.violation(f"{flags} for {key[1]} (v{c.get('ver')}{' be' if c.get('be') else ''}, max={c.get('max')}): "
                          f"{json.dumps(allrecs[ln - 1])[:400]}", p)
        cov["violating_cases"] = len(v["bad"])
        cov["violation_kinds"] = {",".join(k): n for k, n in shown.items()}
        cov["checker_cmd"] = "tlc GgufMut.tla (enumeration) ; tlc Trace_GgufDecode.tla"
    vf.write_evidence(PROP, tier, seed, "model_checking", cov, time.time() - t0, violations=len(res.violations),
                      assumptions=["address-space limit 3 GB per child (ulimit -v); allocation bound 2 MiB + 64 bytes per input byte; 5 s per file",
                                   "mutations of one base file (3 key/values, 2 tensors); arbitrary byte strings beyond that are not enumerated"])
    return res.finish()

--------------------------------- MODULE CrashCore -------------------------------
(* C12 -- the model store under process death.  Every operation of the server    *)
(* (create from files incl. the client's blob upload, create FROM, copy, delete, *)
(* pull) is the sequence of FILE-SYSTEM EFFECTS the code performs, in the order   *)
(* strace shows them (server/layer.go NewLayer, server/manifest.go WriteManifest, *)
(* server/images.go CopyModel / PullModel / deleteUnusedLayers, server/download.go*)
(* Prepare / run, server/routes.go DeleteHandler).  The process can die after any *)
(* effect; Restart is the startup repair sequence of Serve (skip pruning when a   *)
(* manifest does not parse, else remove debris and unreferenced blobs); Redo      *)
(* repeats the interrupted operation.                                             *)
(*                                                                              *)
(* Store state st:                                                               *)
(*   man   : name -> [ok, layers, cfg]   (ok = FALSE: the file exists but is torn) *)
(*   blobs : set of blob labels present under their final name                   *)
(*   tmp   : number of sha256-<random> temp files                                *)
(*   part  : blob label -> [meta: none|torn|ok, data: none|empty|full]           *)
EXTENDS Integers, Sequences, FiniteSets, TLC

\* Variant: "asis" = the order of effects of the code; the others are the ordering mistakes the property is about,
\* kept as switches so that TLC shows each of them violating an invariant (checks/c12.py runs them in the thorough tier):
\*   "manifest-first"       create / pull write the manifest before the blobs are in place
\*   "delete-layers-first"  delete removes the layers before the manifest
\*   "hardlink-copy"        copy links the manifest file instead of copying it (manifests are rewritten in place)
CONSTANT Variant
\* Multi-part downloads (layers > 100 MB get one part file per part; two parts here) and what a repeated pull does with the
\* part files a crash left when they were NOT pruned at restart:
\*   BigBlobs        blob labels that are downloaded in two parts
\*   TornPartFix     TRUE (the code since fix 4fe4b9592): an unreadable part file makes the download start over; FALSE: every
\*                   later pull of the blob fails
\*   KnowsLayerSize  FALSE (the code): the part files found are taken for the complete plan, so after a crash between the two
\*                   part files only the first part is fetched and the pull fails its verification once (known finding);
\*                   TRUE: an incomplete plan is noticed and the download starts over
CONSTANTS BigBlobs, TornPartFix, KnowsLayerSize

Ver(g, s, c) == [ok |-> TRUE, layers |-> <<g, s>>, cfg |-> c]
Torn == [ok |-> FALSE, layers |-> <<>>, cfg |-> ""]
BlobsOf(m) == IF m.ok THEN {m.layers[i] : i \in DOMAIN m.layers} \cup (IF m.cfg = "" THEN {} ELSE {m.cfg}) ELSE {}
Put(f, k, v) == [x \in DOMAIN f \cup {k} |-> IF x = k THEN v ELSE f[x]]
Drop(f, k) == [x \in DOMAIN f \ {k} |-> f[x]]
Referenced(st) == UNION {BlobsOf(st.man[n]) : n \in DOMAIN st.man}
Readable(st, n) == n \in DOMAIN st.man /\ st.man[n].ok
NoPart == [meta |-> "none", meta2 |-> "none", data |-> "none"]
PartOf(st, d) == IF d \in DOMAIN st.part THEN st.part[d] ELSE NoPart
SetPart(st, d, p) == IF p = NoPart THEN [st EXCEPT !.part = Drop(@, d)] ELSE [st EXCEPT !.part = Put(@, d, p)]
EmptyStore == [man |-> <<>>, blobs |-> {}, tmp |-> 0, part |-> <<>>, links |-> {}]
\* names whose manifest file is the same inode as n's (hard links)
Group(st, n) == IF \E g \in st.links : n \in g THEN CHOOSE g \in st.links : n \in g ELSE {n}
PutAll(f, ks, v) == [x \in DOMAIN f \cup ks |-> IF x \in ks THEN v ELSE f[x]]
Unlinked(st, n) == {g \ {n} : g \in st.links} \ {{}} 

\* ---------------------------------------------------------------- effects
\* an effect: [k: create|write|trunc|resize|rename|unlink|resume, o: tmp|blob|partmeta|partial|man, d: label or name, td: rename target]
E(k, o, d) == [k |-> k, o |-> o, d |-> d, td |-> ""]
Ren(o, d, td) == [k |-> "rename", o |-> o, d |-> d, td |-> td]

\* ver: what a write of manifest e.d stores (the operation's new version)
Apply(st, e, ver) ==
  CASE e.o = "tmp" /\ e.k = "create" -> [st EXCEPT !.tmp = @ + 1]
    [] e.o = "tmp" /\ e.k = "write"  -> st
    [] e.o = "tmp" /\ e.k = "unlink" -> [st EXCEPT !.tmp = IF @ > 0 THEN @ - 1 ELSE 0]
    [] e.o = "tmp" /\ e.k = "rename" -> [st EXCEPT !.tmp = IF @ > 0 THEN @ - 1 ELSE 0, !.blobs = @ \cup {e.td}]
    [] e.o = "partmeta" /\ e.k \in {"create", "trunc"} -> SetPart(st, e.d, [PartOf(st, e.d) EXCEPT !.meta = "torn"])
    [] e.o = "partmeta" /\ e.k = "write"  -> SetPart(st, e.d, [PartOf(st, e.d) EXCEPT !.meta = "ok"])
    [] e.o = "partmeta" /\ e.k = "unlink" -> SetPart(st, e.d, [PartOf(st, e.d) EXCEPT !.meta = "none"])
    [] e.o = "partmeta2" /\ e.k \in {"create", "trunc"} -> SetPart(st, e.d, [PartOf(st, e.d) EXCEPT !.meta2 = "torn"])
    [] e.o = "partmeta2" /\ e.k = "write"  -> SetPart(st, e.d, [PartOf(st, e.d) EXCEPT !.meta2 = "ok"])
    [] e.o = "partmeta2" /\ e.k = "unlink" -> SetPart(st, e.d, [PartOf(st, e.d) EXCEPT !.meta2 = "none"])
    [] e.o = "partial" /\ e.k = "create"  -> SetPart(st, e.d, [PartOf(st, e.d) EXCEPT !.data = "empty"])
    [] e.o = "partial" /\ e.k = "resize"  -> st
    [] e.o = "partial" /\ e.k = "write"   -> SetPart(st, e.d, [PartOf(st, e.d) EXCEPT !.data = "full"])
    [] e.o = "partial" /\ e.k = "rename"  -> [SetPart(st, e.d, [PartOf(st, e.d) EXCEPT !.data = "none"]) EXCEPT !.blobs = @ \cup {e.td}]
    [] e.o = "blob" /\ e.k = "resume"     -> [SetPart(st, e.d, NoPart) EXCEPT !.blobs = @ \cup {e.d}]
    [] e.o = "blob" /\ e.k = "unlink"     -> [st EXCEPT !.blobs = @ \ {e.d}]
    [] e.o = "man" /\ e.k \in {"create", "trunc"} -> [st EXCEPT !.man = PutAll(@, Group(st, e.d), Torn)]
    [] e.o = "man" /\ e.k = "write"       -> [st EXCEPT !.man = PutAll(@, Group(st, e.d), ver)]
    [] e.o = "man" /\ e.k = "unlink"      -> [st EXCEPT !.man = Drop(@, e.d), !.links = Unlinked(st, e.d)]
    [] e.o = "man" /\ e.k = "link"        -> [st EXCEPT !.man = Put(@, e.d, st.man[e.td]),
                                                        !.links = (Unlinked(st, e.d) \ {Group(st, e.td)}) \cup {Group(st, e.td) \cup {e.d}}]
    [] OTHER -> st

RECURSIVE ApplyAll(_, _, _)
ApplyAll(st, es, ver) == IF es = <<>> THEN st ELSE ApplyAll(Apply(st, Head(es), ver), Tail(es), ver)

\* ---------------------------------------------------------------- plans
\* operations: [op: createfiles|createfrom|copy|delete|pull, n, m, v]   v = the version to be stored (create*, pull)
NewLayer(st, d) == <<E("create", "tmp", ""), E("write", "tmp", "")>> \o
                   (IF d \in st.blobs THEN <<E("unlink", "tmp", "")>> ELSE <<Ren("tmp", "", d)>>)
\* the manifest file is written in place: os.Create / os.WriteFile (O_TRUNC), then the bytes
\* (truncating a file that is already empty is not an effect)
WriteMan(st, n) == IF n \notin DOMAIN st.man THEN <<E("create", "man", n), E("write", "man", n)>>
                   ELSE IF st.man[n].ok THEN <<E("trunc", "man", n), E("write", "man", n)>>
                   ELSE <<E("write", "man", n)>>
Download(st, d) ==
  IF d \in st.blobs THEN <<>>
  ELSE IF PartOf(st, d) # NoPart THEN <<E("resume", "blob", d)>>
  ELSE IF d \in BigBlobs
  THEN <<E("create", "partmeta", d), E("write", "partmeta", d), E("create", "partmeta2", d), E("write", "partmeta2", d),
         E("create", "partial", d), E("resize", "partial", d), E("write", "partial", d),
         E("trunc", "partmeta", d), E("write", "partmeta", d), E("trunc", "partmeta2", d), E("write", "partmeta2", d),
         E("unlink", "partmeta", d), E("unlink", "partmeta2", d), Ren("partial", d, d)>>
  ELSE <<E("create", "partmeta", d), E("write", "partmeta", d), E("create", "partial", d), E("resize", "partial", d),
         E("write", "partial", d), E("trunc", "partmeta", d), E("write", "partmeta", d), E("unlink", "partmeta", d),
         Ren("partial", d, d)>>

\* a repeated pull that finds part files of blob d (they were not pruned): what blobDownload.Prepare makes of them
PartTorn(p) == p.meta = "torn" \/ p.meta2 = "torn"
PartIncomplete(d, p) == d \in BigBlobs /\ p.meta = "ok" /\ p.meta2 = "none"
\* "never": every repetition fails; "once": the first repetition fails (truncated blob, removed by the verification), the
\* second starts from nothing; "no": the repetition succeeds
ResumeFails(st, d) ==
  LET p == PartOf(st, d) IN
  IF d \in st.blobs \/ p = NoPart \/ (p.meta = "none" /\ p.meta2 = "none") THEN "no"
  ELSE IF PartTorn(p) THEN (IF TornPartFix THEN "no" ELSE "never")
  ELSE IF PartIncomplete(d, p) THEN (IF KnowsLayerSize THEN "no" ELSE "once")
  ELSE "no"
PullFails(st, op) ==
  IF op.op # "pull" THEN "no"
  ELSE LET ds == {op.v.layers[1], op.v.layers[2], op.v.cfg} IN
       IF \E d \in ds : ResumeFails(st, d) = "never" THEN "never"
       ELSE IF \E d \in ds : ResumeFails(st, d) = "once" THEN "once" ELSE "no"

\* effects of storing the blobs ds one after the other, each seeing the effects of the earlier ones
RECURSIVE NewLayers(_, _)
NewLayers(st, ds) == IF ds = <<>> THEN <<>> ELSE LET es == NewLayer(st, Head(ds)) IN es \o NewLayers(ApplyAll(st, es, Torn), Tail(ds))
RECURSIVE Downloads(_, _)
Downloads(st, ds) == IF ds = <<>> THEN <<>> ELSE LET es == Download(st, Head(ds)) IN es \o Downloads(ApplyAll(st, es, Torn), Tail(ds))

\* the blobs of n's version that no other manifest refers to
DelSet(st, n) == {d \in BlobsOf(st.man[n]) \cap st.blobs : \A x \in DOMAIN st.man \ {n} : d \notin BlobsOf(st.man[x])}
RECURSIVE SetToSeq(_)
SetToSeq(S) == IF S = {} THEN <<>> ELSE LET x == CHOOSE y \in S : TRUE IN <<x>> \o SetToSeq(S \ {x})

Plan(st, op) ==
  CASE op.op = "createfiles" ->
         LET up == IF op.v.layers[1] \in st.blobs THEN <<>> ELSE NewLayer(st, op.v.layers[1])      \* POST /api/blobs/:digest
             s1 == ApplyAll(st, up, Torn)
             ls == NewLayers(s1, <<op.v.layers[2], op.v.cfg>>)
         IN IF Variant = "manifest-first" THEN WriteMan(st, op.n) \o up \o ls ELSE up \o ls \o WriteMan(st, op.n)
    [] op.op = "createfrom" -> NewLayers(st, <<op.v.layers[2], op.v.cfg>>) \o WriteMan(st, op.n)
    [] op.op = "copy"   -> IF Variant = "hardlink-copy"
                           THEN (IF op.n \in DOMAIN st.man THEN <<E("unlink", "man", op.n)>> ELSE <<>>) \o <<[k |-> "link", o |-> "man", d |-> op.n, td |-> op.m]>>
                           ELSE WriteMan(st, op.n)
    [] op.op = "delete" -> IF ~Readable(st, op.n) THEN <<>>
                           ELSE IF Variant = "delete-layers-first"
                                  THEN [i \in 1..Cardinality(DelSet(st, op.n)) |-> E("unlink", "blob", SetToSeq(DelSet(st, op.n))[i])] \o <<E("unlink", "man", op.n)>>
                           ELSE <<E("unlink", "man", op.n)>>
    [] op.op = "pull"   -> IF Variant = "manifest-first"
                           THEN WriteMan(st, op.n) \o Downloads(st, <<op.v.layers[1], op.v.layers[2], op.v.cfg>>)
                           ELSE Downloads(st, <<op.v.layers[1], op.v.layers[2], op.v.cfg>>) \o WriteMan(st, op.n)

\* blobs removed after the main effects: those of the replaced / deleted version nothing refers to any more
PruneSet(pre, after, op, noPrune) ==
  IF ~Readable(pre, op.n) \/ op.op = "copy" \/ (noPrune /\ op.op # "delete") THEN {}
  ELSE {d \in BlobsOf(pre.man[op.n]) \cap after.blobs : d \notin Referenced(after)}

Enabled(st, op) ==
  CASE op.op \in {"createfrom", "copy"} -> Readable(st, op.m)
    [] op.op = "delete" -> op.n \notin DOMAIN st.man \/ st.man[op.n].ok     \* absent: "not found" = it already took effect
    [] OTHER -> TRUE

\* the version an operation stores, evaluated on the store it starts from
VerOf(st, op) == IF op.op = "copy" THEN st.man[op.m] ELSE op.v

Complete(st, op, noPrune) ==
  LET after == ApplyAll(st, Plan(st, op), VerOf(st, op))
  IN [after EXCEPT !.blobs = @ \ PruneSet(st, after, op, noPrune)]

\* Serve(): fixBlobs; if every manifest parses: PruneLayers (debris and unreferenced blobs), PruneDirectory
RestartSt(st, noPrune) ==
  IF noPrune \/ \E n \in DOMAIN st.man : ~st.man[n].ok THEN st
  ELSE [st EXCEPT !.tmp = 0, !.part = <<>>, !.blobs = @ \cap Referenced(st)]

Involved(op) == {op.n} \cup (IF op.op \in {"createfrom", "copy"} THEN {op.m} ELSE {})

\* ---------------------------------------------------------------- the properties, as predicates on stores
Intact(st) == \A n \in DOMAIN st.man : st.man[n].ok => BlobsOf(st.man[n]) \subseteq st.blobs
Bystanders(pre, st, op) == \A n \in DOMAIN pre.man \ Involved(op) : n \in DOMAIN st.man /\ st.man[n] = pre.man[n]
\* the same manifests; the same blobs as well when startup pruning ran (it is skipped under OLLAMA_NOPRUNE and while a manifest
\* does not parse: unreferenced blobs then stay until it runs again, and are not part of the comparison)
SameStore(a, b, noPrune) == a.man = b.man /\ (noPrune \/ (\E n \in DOMAIN a.man : ~a.man[n].ok) \/ a.blobs = b.blobs)
===============================================================================

------------------------------ MODULE Trace_Gguf ------------------------------
(* C05 -- judges what the real WriteGGUF + Decode did for each enumerated case *)
(* (one NDJSON record per case, written by harness/fs/ggml).                   *)
EXTENDS Integers, Sequences, FiniteSets, TLC, Json, IOUtils

VARIABLES l, nbad
vars == <<l, nbad>>

Trace == ndJsonDeserialize(IOEnv.VF_TRACE)

\* ---- the layout definition (same as Gguf.tla; repeated so this module has no constants)
TypeSize(k)  == CASE k = 0 -> 4 [] k = 1 -> 2 [] k = 24 -> 1 [] k = 26 -> 4
                  [] k = 2 -> 18 [] k = 8 -> 34 [] k = 30 -> 2 [] OTHER -> 0
BlockSize(k) == CASE k \in {0, 1, 24, 26, 30} -> 1 [] k \in {2, 8} -> 32 [] OTHER -> 1
RECURSIVE Prod(_)
Prod(s) == IF s = <<>> THEN 1 ELSE Head(s) * Prod(Tail(s))
SizeOf(kind, shape) == (Prod(shape) * TypeSize(kind)) \div BlockSize(kind)
Pad(x, a) == (a - (x % a)) % a
RECURSIVE Off(_, _, _)
Off(sizes, a, i) == IF i = 1 THEN 0
                    ELSE LET p == Off(sizes, a, i - 1) + sizes[i - 1] IN p + Pad(p, a)
RECURSIVE Sum(_)
Sum(s) == IF s = <<>> THEN 0 ELSE Head(s) + Sum(Tail(s))

\* value bytes of one key/value entry, by the format rules
ElemSize(t) == CASE t \in {"u8", "i8", "bool"} -> 1 [] t \in {"u16", "i16"} -> 2
                 [] t \in {"u32", "i32", "f32"} -> 4 [] t \in {"u64", "i64", "f64"} -> 8
ValueBytes(e) ==
  IF e.t = "str" THEN 8 + e.n
  ELSE IF e.t = "arr" THEN 4 + 8 + (IF e.et = "str" THEN Sum([i \in 1..Len(e.lens) |-> 8 + e.lens[i]])
                                     ELSE e.n * ElemSize(e.et))
  ELSE ElemSize(e.t)
KvBytes(kv) == Sum([i \in 1..Len(kv) |-> 8 + kv[i].klen + 4 + ValueBytes(kv[i])])
InfoBytes(ts) == Sum([i \in 1..Len(ts) |-> 8 + ts[i].nlen + 4 + 8 * Len(ts[i].shape) + 4 + 8])

Init == l = 1 /\ nbad = 0

Case(e) ==
  LET n == Len(e.ts)
      a == e.align
      sizes == [i \in 1..n |-> e.ts[i].size]
      meta == 24 + KvBytes(e.kv) + InfoBytes(e.ts)
      flags ==
           (IF e.err # "" THEN {"write-or-decode-failed"} ELSE {})
      \cup (IF e.err = "" /\ ~e.kvok THEN {"kv-differs"} ELSE {})
      \cup (IF e.err = "" /\ \E i \in 1..n : ~e.ts[i].metaok THEN {"tensor-name-kind-shape-differs"} ELSE {})
      \cup (IF e.err = "" /\ \E i \in 1..n : ~e.ts[i].bytesok THEN {"tensor-bytes-differ"} ELSE {})
      \cup (IF e.err = "" /\ \E i \in 1..n : (e.dataoff + e.ts[i].off) % a # 0 THEN {"tensor-not-aligned"} ELSE {})
      \cup (IF e.err = "" /\ e.end # e.flen THEN {"end-offset-not-file-length"} ELSE {})
      drift ==
           (IF e.err = "" /\ \E i \in 1..n : e.ts[i].size # SizeOf(e.ts[i].kind, e.ts[i].shape) THEN {"size-formula"} ELSE {})
      \cup (IF e.err = "" /\ \E i \in 1..n : e.ts[i].off # Off(sizes, a, i) THEN {"offsets-not-minimal"} ELSE {})
      \cup (IF e.err = "" /\ e.dataoff # meta + Pad(meta, a) THEN {"data-section-start"} ELSE {})
  IN /\ (flags # {}) => PrintT(<<"VFBAD", l, e.id, flags>>)
     /\ (drift # {}) => PrintT(<<"VFDRIFT", l, e.id, drift>>)
     /\ nbad' = IF flags # {} THEN nbad + 1 ELSE nbad

Step == /\ l <= Len(Trace) /\ l' = l + 1 /\ Case(Trace[l])
Spec == Init /\ [][Step]_vars
Accepted == TLCGet("stats").diameter = Len(Trace) + 1
NoViolation == nbad = 0
===============================================================================

------------------------------- MODULE Trace_Kv -------------------------------
(* C06 -- validates what the real kvcache.Causal did (NDJSON trace recorded by *)
(* harness/kvcache) against the reference state machine of KvRef.             *)
(*                                                                            *)
(* Every trace action is total: it consumes one record, updates the reference *)
(* from the logged call, and evaluates the property monitors on the logged    *)
(* observation.  A failing monitor is recorded (and printed) instead of       *)
(* stopping TLC, so that one run judges thousands of concatenated traces.     *)
EXTENDS Integers, Sequences, FiniteSets, TLC, Json, IOUtils

VARIABLES ref,      \* reference: set of [id, pos, seqs, ev]
          cfg,      \* configuration record of the current trace (from its reset line)
          skip,     \* TRUE after the code left the envelope the generator assumed (drift)
          l,        \* next trace line
          nbad      \* number of property violations seen so far
vars == <<ref, cfg, skip, l, nbad>>

Trace == ndJsonDeserialize(IOEnv.VF_TRACE)

Inf == 1000000
W == IF cfg.w = 0 THEN Inf ELSE cfg.w
Range(f) == {f[i] : i \in DOMAIN f}
Of(r, s) == {e \in r : s \in e.seqs}
Live(r) == {e \in r : e.seqs # {}}
MaxPos(r, s) == LET ps == {e.pos : e \in Of(r, s)} IN
                IF ps = {} THEN -1 ELSE CHOOSE p \in ps : \A o \in ps : o <= p
Visible(r, s, p) == {e \in r : s \in e.seqs /\ e.pos <= p /\ e.pos >= p - W}
Min(S) == CHOOSE x \in S : \A y \in S : x <= y

Init == /\ ref = {} /\ cfg = [w |-> 0, cells |-> 0, shift |-> TRUE, t |-> 0, wrapped |-> FALSE]
        /\ skip = FALSE /\ l = 1 /\ nbad = 0

\* report: property monitors that failed on this line
Report(flags, drift) ==
  /\ (flags # {} /\ ~skip) => PrintT(<<"VFBAD", l, cfg.t, flags>>)
  /\ (drift # {} /\ ~skip) => PrintT(<<"VFDRIFT", l, cfg.t, drift>>)
  /\ nbad' = IF flags # {} /\ ~skip THEN nbad + 1 ELSE nbad

Lowest(e, s) == Min({e.pos[i] : i \in {j \in DOMAIN e.batch : e.batch[j] = s}})
Evict(r, e) ==
  IF cfg.w = 0 THEN r
  ELSE LET bs == Range(e.batch) IN
       {[x EXCEPT !.seqs = {s \in x.seqs : ~(s \in bs /\ x.pos < Lowest(e, s) - W)},
                  !.ev   = x.ev \cup {s \in x.seqs : s \in bs /\ x.pos < Lowest(e, s) - W}] : x \in r}

Fwd(e) ==
  LET n    == Len(e.batch)
      r0   == Evict(ref, e)
      fits == Cardinality(Live(r0)) + n <= cfg.cells
      r1   == IF e.err THEN r0
              ELSE r0 \cup {[id |-> e.ids[i], pos |-> e.pos[i], seqs |-> {e.batch[i]}, ev |-> {}] : i \in 1..n}
      ExpIds(i) == {x.id : x \in Visible(r1, e.batch[i], e.pos[i])}
      SeenIds(i) == {p[1] : p \in Range(e.vis[i])}
      PosOfId(i, id) == {x.pos : x \in {y \in Visible(r1, e.batch[i], e.pos[i]) : y.id = id}}
      flags ==
           (IF ~e.err /\ ~fits THEN {"overwrite-instead-of-full"} ELSE {})
      \cup (IF ~e.err /\ \E i \in 1..n : SeenIds(i) # ExpIds(i) THEN {"history-not-exact"} ELSE {})
      \cup (IF ~e.err /\ \E i \in 1..n : Len(e.vis[i]) # Cardinality(SeenIds(i)) THEN {"entry-shown-twice"} ELSE {})
      \cup (IF ~e.err /\ \E i \in 1..n : \E p \in Range(e.vis[i]) :
                   p[1] \in ExpIds(i) /\ p[2] \notin PosOfId(i, p[1]) THEN {"key-position-wrong"} ELSE {})
      \cup (IF ~e.err /\ \E i \in 1..n : \E x \in r1 : e.batch[i] \in x.ev /\ x.pos <= e.pos[i] /\ x.pos >= e.pos[i] - W
               THEN {"window-entry-missing"} ELSE {})
      \cup (IF e.layerdiff THEN {"layers-or-padding-rows-differ"} ELSE {})
      \* inside a WrapperCache a batch is also refused (and rolled back) when the sibling cache is full
      drift == IF e.err /\ fits /\ ~cfg.wrapped THEN {"refused-but-not-full"} ELSE {}
  IN /\ ref' = r1
     /\ Report(flags, drift)
     /\ skip' = (skip \/ (e.err /\ fits /\ ~cfg.wrapped) \/ (~e.err /\ ~fits))
     /\ UNCHANGED cfg

Copy(e) ==
  /\ ref' = {[x EXCEPT !.seqs = IF e.src \in x.seqs /\ x.pos < e.n THEN x.seqs \cup {e.dst} ELSE x.seqs \ {e.dst},
                       !.ev   = IF e.src \in x.ev /\ x.pos < e.n THEN x.ev \cup {e.dst} ELSE x.ev \ {e.dst}] : x \in ref}
  /\ Report({}, {})
  /\ UNCHANGED <<cfg, skip>>

RmTail(e) ==
  /\ ref' = {[x EXCEPT !.seqs = IF x.pos >= e.b THEN @ \ {e.s} ELSE @,
                       !.ev = IF x.pos >= e.b THEN @ \ {e.s} ELSE @] : x \in ref}
  /\ Report({}, IF e.err THEN {"suffix-removal-failed"} ELSE {})
  /\ skip' = (skip \/ e.err)
  /\ UNCHANGED cfg

\* a shared later entry that the code shifted anyway: the ideal outcome is that only the
\* removing sequence sees it at the new position; the others keep it where it was
RmMid(e) ==
  LET s == e.s
      d == e.e - e.b
      shared == \E x \in Of(ref, s) : x.pos >= e.e /\ x.seqs # {s}
      remain == \E x \in Of(ref, s) : x.pos < e.b \/ x.pos >= e.e
      want   == shared \/ (~cfg.shift /\ remain)
      moved  == {[x EXCEPT !.pos = @ - d, !.seqs = {s}, !.ev = @ \cap {s}] : x \in {y \in Of(ref, s) : y.pos >= e.e}}
      stay   == {IF s \notin x.seqs THEN x
                 ELSE IF x.pos >= e.b /\ x.pos < e.e THEN [x EXCEPT !.seqs = @ \ {s}]
                 ELSE IF x.pos >= e.e THEN [x EXCEPT !.seqs = @ \ {s}, !.ev = @ \ {s}]
                 ELSE x : x \in ref}
  IN /\ ref' = IF e.err THEN ref ELSE stay \cup moved   \* after a failure the harness erases s next
     /\ Report({}, IF e.err # want THEN {"middle-removal-outcome"} ELSE {})
     /\ skip' = (skip \/ (e.err /\ ~want))
     /\ UNCHANGED cfg

CanResume(e) ==
  LET missing == {x \in ref : e.s \in x.ev /\ x.pos < e.p /\ x.pos >= e.p - W} IN
  /\ Report(IF e.res /\ missing # {} /\ e.p <= MaxPos(ref, e.s) + 1 THEN {"resume-over-dropped-entries"} ELSE {},
            IF e.res # e.want THEN {"canresume-differs"} ELSE {})
  /\ UNCHANGED <<ref, cfg, skip>>

Reset(e) ==
  /\ ref' = {} /\ skip' = FALSE
  /\ cfg' = [w |-> e.w, cells |-> e.cells, shift |-> e.shift, t |-> e.t, wrapped |-> e.wrapped]
  /\ nbad' = nbad

Step ==
  /\ l <= Len(Trace)
  /\ l' = l + 1
  /\ LET e == Trace[l] IN
       CASE e.ev = "reset"     -> Reset(e)
         [] e.ev = "fwd"       -> Fwd(e)
         [] e.ev = "copy"      -> Copy(e)
         [] e.ev = "rmtail"    -> RmTail(e)
         [] e.ev = "rmmid"     -> RmMid(e)
         [] e.ev = "canresume" -> CanResume(e)
         [] e.ev = "panic"     -> Report({"panic"}, {}) /\ skip' = TRUE /\ UNCHANGED <<ref, cfg>>

Spec == Init /\ [][Step]_vars

\* the whole trace was consumed (one state per line plus the initial state)
Accepted == TLCGet("stats").diameter = Len(Trace) + 1
\* used when a single trace is re-validated to obtain a short counterexample
NoViolation == nbad = 0
===============================================================================

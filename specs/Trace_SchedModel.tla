---------------------------- MODULE Trace_SchedModel ----------------------------
(* C01 / C02 / C11 -- conformance of the real scheduler with Sched.tla's own        *)
(* actions.  Input: one line per behaviour that the gated replay followed to the     *)
(* end (no gate missed, no noise): the labels of the behaviour and the facts the     *)
(* real run recorded (which request was granted which runner, which was refused,     *)
(* how many runners were started).  The labels are applied to the model with         *)
(* Sched's actions; at the end of the behaviour the model's verdict on every request *)
(* that was decided within it (granted r / failed / dropped / busy) and the number   *)
(* of runners it started are compared with the facts.  Differences are VFDRIFT.      *)
(* The root module (generated per configuration) defines MCModelOf etc.             *)
EXTENDS Sched, IOUtils

VARIABLES bi, k
B == ndJsonDeserialize(IOEnv.VF_TRACE)
TInit == Init /\ bi = 1 /\ k = 1

Act(lab) ==
  CASE lab.a = "Submit"  -> Submit(lab.q)
    [] lab.a = "EndCtx"  -> EndCtx(lab.q)
    [] lab.a = "FinPost" -> FinPost(lab.q)
    [] lab.a = "PRecv" -> PRecv [] lab.a = "PIgnoreUnloaded" -> PIgnoreUnloaded [] lab.a = "PDecide" -> PDecide
    [] lab.a = "PNeedsReload" -> PNeedsReload [] lab.a = "PUse" -> PUse [] lab.a = "PFit" -> PFit [] lab.a = "PUpdFree" -> PUpdFree
    [] lab.a = "PLoad" -> PLoad [] lab.a = "PVictim" -> PVictim [] lab.a = "PExpire" -> PExpire [] lab.a = "PWait" -> PWait
    [] lab.a = "LoadOk" -> LoadOk(lab.r) [] lab.a = "LoadFail" -> LoadFail(lab.r)
    [] lab.a = "TimerFire" -> TimerFire(lab.r) [] lab.a = "TimerRun" -> TimerRun(lab.r) [] lab.a = "Requeue" -> Requeue(lab.r)
    [] lab.a = "CFinished" -> CFinished [] lab.a = "CFinBody" -> CFinBody [] lab.a = "CExpired" -> CExpired
    [] lab.a = "CUnload" -> CUnload [] lab.a = "CPost" -> CPost
    [] lab.a = "XStart" -> XStart(lab.m) [] lab.a = "XBody" -> XBody
    [] OTHER -> FALSE

Rng(s) == {s[i] : i \in DOMAIN s}
\* the model's verdicts at the end of the behaviour against the recorded facts
Drift(b) ==
  LET granted == {q \in Req : rq[q].st = "granted"}
      refusedM == {q \in Req : rq[q].st \in {"failed", "done"} /\ rq[q].replies = 1 /\ rq[q].got = NoR}
      factGrant(q) == IF \E g \in Rng(b.grants) : g[1] = q THEN (CHOOSE g \in Rng(b.grants) : g[1] = q)[2] ELSE 0
  IN   (IF \E q \in granted : factGrant(q) # rq[q].got THEN {"granted-runner-differs-from-model"} ELSE {})
  \cup (IF \E q \in refusedM : q \notin Rng(b.refused) THEN {"model-refused-request-was-not-refused"} ELSE {})
  \cup (IF \E q \in granted : q \in Rng(b.refused) THEN {"model-granted-request-was-refused"} ELSE {})
  \cup (IF b.starts < nextId - 1 THEN {"fewer-runners-started-than-in-model"} ELSE {})

Step ==
  /\ bi <= Len(B)
  /\ IF k <= Len(B[bi].hist)
       THEN /\ Act(B[bi].hist[k]) /\ hist' = hist /\ k' = k + 1 /\ bi' = bi
       ELSE /\ LET d == Drift(B[bi]) IN (d # {}) => PrintT(<<"VFDRIFT", bi, B[bi].t, d>>)
            /\ bi' = bi + 1 /\ k' = 1
            /\ pendingQ' = <<>> /\ finishedQ' = <<>> /\ expiredQ' = <<>> /\ unloadedN' = 0
            /\ loaded' = [m \in Model |-> NoR] /\ run' = [r \in RunnerId |-> NoRun] /\ nextId' = 1
            /\ refMu' = [r \in RunnerId |-> "free"] /\ loadedMu' = "free"
            /\ ppc' = "idle" /\ preq' = None /\ pvictim' = NoR /\ ptodo' = {}
            /\ cpc' = "idle" /\ crun' = NoR /\ xpc' = "idle" /\ xmodel' = None /\ xrun' = NoR
            /\ rq' = [q \in Req |-> [st |-> "new", ctx |-> "live", replies |-> 0, got |-> NoR, fin |-> "none"]]
            /\ requeue' = {} /\ closes' = [r \in RunnerId |-> 0] /\ viol' = {} /\ hist' = <<>>
\* every behaviour was followed to its end: the last state is "past the last behaviour"
Accepted == TLCGet("stats").diameter = atoi(IOEnv.VF_EXPECT_NUM) + 1
===============================================================================

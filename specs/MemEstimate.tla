----------------------------- MODULE MemEstimate -----------------------------
(* C16 -- generator and design-level check for MemEstimateCore (the          *)
(* transcription of llm.EstimateGPULayers and the statement of the property). *)
EXTENDS MemEstimateCore

\* ---------------------------------------------------------------- generator
CONSTANTS MaxBlocks, MaxGpus, TensorSizes, Kv, GQA, FreeGrid, Mins, Overheads, Outs, Gzos

VARIABLES blk,    \* tensor bytes of each block
          gpus,   \* sequence of [free, min]
          opt     \* [out, gzo, ov, ng]
vars == <<blk, gpus, opt>>

NGs(b) == {-1, 0, 1, b, b + 1, 999}
Init == /\ blk \in UNION {[1..b -> TensorSizes] : b \in 1..MaxBlocks}
        /\ opt \in {[out |-> o, gzo |-> z, ov |-> v, ng |-> g] : o \in Outs, z \in Gzos, v \in Overheads,
                                                                 g \in UNION {NGs(b) : b \in 1..MaxBlocks}}
        /\ opt.ng \in NGs(Len(blk))
        /\ gpus = <<>>
Next == /\ Len(gpus) < MaxGpus
        /\ \E f \in FreeGrid, m \in Mins : gpus' = Append(gpus, [free |-> f, min |-> m])
        /\ UNCHANGED <<blk, opt>>
Spec == Init /\ [][Next]_vars

\* what the estimator derives from such a model (unknown architecture: graph = GQA*kvTotal/6)
InOf == LET B == Len(blk)
            g == (GQA * Kv * B) \div 6
        IN [free |-> [i \in 1..Len(gpus) |-> gpus[i].free], min |-> [i \in 1..Len(gpus) |-> gpus[i].min],
            L |-> [i \in 1..B |-> blk[i] + Kv], out |-> opt.out, gP |-> g, gF |-> g, gzo |-> opt.gzo,
            ov |-> opt.ov, ng |-> opt.ng]

Holds == gpus # <<>> => LET r == Estimate(InOf) IN C16(InOf, r, Fit(InOf, r))
Emit == (gpus # <<>>) => PrintT(ToJson([blk |-> blk, gpus |-> gpus, opt |-> opt]))
===============================================================================

--------------------------- MODULE Trace_MemEstimate ---------------------------
(* C16 -- judges the results of the real EstimateGPULayers / PredictServerFit  *)
(* against the property, on the inputs the real function derived and logged,   *)
(* and compares them with the transcription (conformance = drift only).        *)
EXTENDS MemEstimateCore, IOUtils

VARIABLES l, nbad
tvars == <<l, nbad>>
Trace == ndJsonDeserialize(IOEnv.VF_TRACE)

TInit == l = 1 /\ nbad = 0

Case(e) ==
  LET in == [free |-> e.free, min |-> e.min, L |-> e.L, out |-> e.out, gP |-> e.gP, gF |-> e.gF,
             gzo |-> e.gzo, ov |-> e.ov, ng |-> e.ng]
      r  == [layers |-> e.layers, sizes |-> e.sizes, vram |-> e.vram, total |-> e.total, split |-> e.split]
      x  == Estimate(in)
      flags ==
        IF e.err # "" THEN {"estimator-failed"} ELSE
           (IF \E i \in 1..Len(r.sizes) : r.sizes[i] > 0 /\ r.sizes[i] + in.ov > in.free[i] THEN {"more-than-free-less-overhead"} ELSE {})
      \cup (IF r.layers > Len(in.L) + 1 THEN {"more-layers-than-model"} ELSE {})
      \cup (IF in.ng >= 0 /\ r.layers > in.ng THEN {"more-layers-than-num_gpu"} ELSE {})
      \cup (IF r.split # <<>> /\ SumSeq(r.split) # r.layers THEN {"split-does-not-sum-to-layers"} ELSE {})
      \cup (IF r.total < r.vram THEN {"total-below-gpu-resident"} ELSE {})
      \cup (IF e.fit /\ in.ng < 0 /\ r.layers < Len(in.L) + 1 THEN {"fit-declared-with-layers-unplaced"} ELSE {})
      \cup (IF e.fit /\ in.ng >= 0 /\ r.layers < in.ng THEN {"fit-declared-below-requested-layers"} ELSE {})
      drift == IF e.err = "" /\ (x.layers # r.layers \/ x.sizes # r.sizes \/ x.total # r.total \/ x.vram # r.vram
                                 \/ x.split # r.split \/ Fit(in, x) # e.fit)
               THEN {"differs-from-transcription"} ELSE {}
  IN /\ (flags # {}) => PrintT(<<"VFBAD", l, e.id, flags>>)
     /\ (drift # {}) => PrintT(<<"VFDRIFT", l, e.id, drift>>)
     /\ nbad' = IF flags # {} THEN nbad + 1 ELSE nbad

Step == /\ l <= Len(Trace) /\ l' = l + 1 /\ Case(Trace[l])
Init == TInit
Accepted == TLCGet("stats").diameter = Len(Trace) + 1
===============================================================================

---------------------------- MODULE Trace_GgufDecode ----------------------------
(* C10 -- the only acceptable outcomes of decoding an untrusted file: a decoded   *)
(* model or an error, in bounded time, with memory proportional to the input.     *)
(* Records come from harness/fs/ggml/vf_decode_test.go (decode in a child process *)
(* under an address-space limit) and from the API harness (upload/create/show).   *)
EXTENDS Integers, Sequences, FiniteSets, TLC, Json, IOUtils

VARIABLES l, nbad
Trace == ndJsonDeserialize(IOEnv.VF_TRACE)
Init == l = 1 /\ nbad = 0

AllocBound(len) == 2 * 1048576 + 64 * len     \* 2 MiB of fixed buffers + 64 bytes per input byte
Decode(e) ==
     (IF e.outcome = "panic" THEN {"decoder-panicked"} ELSE {})
\cup (IF e.outcome = "crash" THEN {"decoder-crashed-the-process"} ELSE {})
\cup (IF e.outcome = "oom" THEN {"runaway-allocation"} ELSE {})
\cup (IF e.outcome = "timeout" THEN {"does-not-terminate"} ELSE {})
\cup (IF e.outcome \in {"decoded", "error"} /\ e.alloc > AllocBound(e.len) THEN {"allocation-out-of-proportion"} ELSE {})
\cup (IF e.outcome \in {"decoded", "error"} /\ e.ms > 5000 THEN {"does-not-terminate"} ELSE {})
Api(e) ==
     (IF ~e.alive THEN {"server-stopped-serving"} ELSE {})
\cup (IF e.alive /\ e.blob >= 500 THEN {"upload-answered-with-server-error"} ELSE {})

Step == /\ l <= Len(Trace) /\ l' = l + 1
        /\ LET e == Trace[l]
               flags == IF e.ev = "decode" THEN Decode(e) ELSE IF e.ev = "api" THEN Api(e) ELSE {}
           IN /\ (flags # {}) => PrintT(<<"VFBAD", l, e.id, flags>>)
              /\ nbad' = IF flags # {} THEN nbad + 1 ELSE nbad
Accepted == TLCGet("stats").diameter = Len(Trace) + 1
===============================================================================

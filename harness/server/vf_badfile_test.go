//go:build verif

package server

// /verif harness for the API clause of C10: files materialised by harness/fs/ggml (VF_FILES) are
// uploaded to a real Server running in a child process, used to create and to show a model, and the
// server is asked for its version afterwards.  A child that dies is an observation about the file it
// was working on.  Records go to VF_OUT (merged by checks/c10.py).

import (
	"bufio"
	"bytes"
	"encoding/json"
	"fmt"
	"os"
	"os/exec"
	"path/filepath"
	"sort"
	"strconv"
	"strings"
	"testing"
	"time"

	"github.com/ollama/ollama/api"
)

func TestVFApiChild(t *testing.T) {
	if os.Getenv("VF_API_CHILD") == "" {
		t.Skip()
	}
	v := vfNewSrv(0)
	sc := bufio.NewScanner(os.Stdin)
	out := bufio.NewWriter(os.Stdout)
	for sc.Scan() {
		parts := strings.Fields(sc.Text()) // id path
		if len(parts) != 2 {
			continue
		}
		fmt.Fprintf(out, "VFSTART %s\n", parts[0])
		out.Flush()
		watchdog := time.AfterFunc(15*time.Second, func() {
			fmt.Fprintf(os.Stderr, "VFWATCHDOG %s\n", parts[0])
			os.Exit(97)
		})
		data, _ := os.ReadFile(parts[1])
		rec := map[string]any{"id": parts[0], "blob": 0, "create": 0, "show": 0, "alive": false}
		d := fmt.Sprintf("sha256:%x", sha256Sum(data))
		rec["blob"], _, _ = v.do("POST", "/api/blobs/"+d, data)
		stream := false
		name := "bad" + parts[0]
		rec["create"], _, _ = v.do("POST", "/api/create", api.CreateRequest{Model: name, Files: map[string]string{"m.gguf": d}, Stream: &stream})
		rec["show"], _, _ = v.do("POST", "/api/show", api.ShowRequest{Model: name, Verbose: true})
		v.do("DELETE", "/api/delete", api.DeleteRequest{Model: name})
		code, _, _ := v.do("GET", "/api/version", nil)
		rec["alive"] = code == 200
		watchdog.Stop()
		js, _ := json.Marshal(rec)
		fmt.Fprintf(out, "VFDONE %s\n", js)
		out.Flush()
	}
	os.Exit(0)
}

func TestVFApiReplay(t *testing.T) {
	dir, outPath := os.Getenv("VF_FILES"), os.Getenv("VF_OUT")
	if dir == "" || outPath == "" {
		t.Skip("VF_FILES / VF_OUT not set")
	}
	outf, err := os.Create(outPath)
	if err != nil {
		t.Fatal(err)
	}
	defer outf.Close()
	enc := json.NewEncoder(outf)
	ents, _ := os.ReadDir(dir)
	var ids []int
	for _, e := range ents {
		if id, err := strconv.Atoi(strings.TrimSuffix(e.Name(), ".gguf")); err == nil {
			ids = append(ids, id)
		}
	}
	sort.Ints(ids)
	exe, _ := os.Executable()
	todo := ids
	n := 0
	for len(todo) > 0 {
		cmd := exec.Command(exe, "-test.run", "^TestVFApiChild$")
		cmd.Env = append(os.Environ(), "VF_API_CHILD=1", "VF_IN=", "VF_OUT=", "VF_FILES=")
		var stdin, stdout, stderr bytes.Buffer
		for _, id := range todo {
			fmt.Fprintf(&stdin, "%d %s\n", id, filepath.Join(dir, fmt.Sprintf("%d.gguf", id)))
		}
		cmd.Stdin, cmd.Stdout, cmd.Stderr = &stdin, &stdout, &stderr
		done := make(chan error, 1)
		cmd.Start()
		go func() { done <- cmd.Wait() }()
		select {
		case <-done:
		case <-time.After(time.Duration(60+len(todo)) * time.Second):
			cmd.Process.Kill()
			<-done
		}
		started := -1
		finished := map[int]bool{}
		for _, line := range strings.Split(stdout.String(), "\n") {
			if strings.HasPrefix(line, "VFSTART ") {
				started, _ = strconv.Atoi(strings.TrimPrefix(line, "VFSTART "))
			} else if strings.HasPrefix(line, "VFDONE ") {
				var r map[string]any
				if json.Unmarshal([]byte(strings.TrimPrefix(line, "VFDONE ")), &r) == nil {
					id, _ := strconv.Atoi(fmt.Sprint(r["id"]))
					r["ev"], r["id"] = "api", id
					enc.Encode(r)
					finished[id] = true
					n++
				}
			}
		}
		var rest []int
		for _, id := range todo {
			if !finished[id] {
				rest = append(rest, id)
			}
		}
		if started == -1 {
			t.Fatalf("API child did not start: %s", stderr.String()[:min(stderr.Len(), 2000)])
		}
		if !finished[started] {
			es := stderr.String()
			i := strings.Index(es, "panic:")
			if i < 0 {
				i = max(len(es)-600, 0)
			}
			enc.Encode(map[string]any{"ev": "api", "id": started, "blob": 0, "create": 0, "show": 0, "alive": false, "msg": es[i:min(len(es), i+600)]})
			n++
			var r2 []int
			for _, x := range rest {
				if x != started {
					r2 = append(r2, x)
				}
			}
			rest = r2
		}
		todo = rest
	}
	fmt.Printf("VF replayed=%d\n", n)
}

package blob

// /verif harness for C13, second half: server/internal/internal/names can only be imported from
// below server/internal, so its parser (and the cross-check with types/model) is exercised here.
// Records are merged with those of harness/server/vf_names_test.go by id.

import (
	"bufio"
	"encoding/json"
	"fmt"
	"os"
	"strings"
	"testing"

	"github.com/ollama/ollama/server/internal/internal/names"
	"github.com/ollama/ollama/types/model"
)

func TestVFNamesParse(t *testing.T) {
	inPath, outPath := os.Getenv("VF_IN"), os.Getenv("VF_OUT")
	if inPath == "" || outPath == "" {
		t.Skip("VF_IN / VF_OUT not set")
	}
	in, err := os.Open(inPath)
	if err != nil {
		t.Fatal(err)
	}
	defer in.Close()
	out, err := os.Create(outPath)
	if err != nil {
		t.Fatal(err)
	}
	defer out.Close()
	w := bufio.NewWriterSize(out, 1<<20)
	defer w.Flush()
	enc := json.NewEncoder(w)
	sc := bufio.NewScanner(in)
	sc.Buffer(make([]byte, 1<<20), 1<<26)
	n := 0
	for sc.Scan() {
		var c struct {
			Id    int      `json:"id"`
			Kind  string   `json:"kind"`
			Chars []string `json:"chars"`
		}
		if err := json.Unmarshal(sc.Bytes(), &c); err != nil {
			t.Fatalf("bad case: %v", err)
		}
		n++
		if c.Kind == "digest" {
			continue
		}
		s := strings.Join(c.Chars, "")
		rec := map[string]any{"id": c.Id, "npanic": ""}
		func() {
			defer func() {
				if r := recover(); r != nil {
					rec["npanic"] = fmt.Sprint(r)
				}
			}()
			nn := names.Parse(s)
			rec["nb"] = []string{nn.Host(), nn.Namespace(), nn.Model(), nn.Tag()}
			rec["nv"], rec["nfq"] = nn.IsValid(), nn.IsFullyQualified()
			rec["nrt"] = true
			if nn.IsFullyQualified() { // the names the store accepts
				rec["nrt"] = names.Parse(nn.String()).Compare(nn) == 0 && names.Parse(nn.String()).String() == nn.String()
			}
			rec["xn2m"], rec["xm2n"] = true, true
			if nn.IsFullyQualified() {
				o := model.ParseNameBare(nn.String())
				rec["xn2m"] = o.Host == nn.Host() && o.Namespace == nn.Namespace() && o.Model == nn.Model() && o.Tag == nn.Tag()
			}
			mb := model.ParseNameBare(s)
			if mb.IsFullyQualified() {
				o := names.Parse(mb.String())
				rec["xm2n"] = o.Host() == mb.Host && o.Namespace() == mb.Namespace && o.Model() == mb.Model && o.Tag() == mb.Tag
			}
		}()
		enc.Encode(rec)
	}
	fmt.Printf("VF replayed=%d\n", n)
}

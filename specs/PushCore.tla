------------------------------- MODULE PushCore -------------------------------
(* C09 (push half) -- the two push implementations, request by request.          *)
(*  "new"    Registry.Push (server/internal/client/ollama/registry.go): for every *)
(*           layer concurrently POST blobs/uploads/?digest= (no Location = the    *)
(*           registry has it), PUT <location>; g.Wait(); PUT manifests/<tag>.      *)
(*  "legacy" PushModel / uploadBlob / blobUpload (server/images.go, upload.go):    *)
(*           for every layer and the config in order HEAD blobs/<digest>, POST     *)
(*           blobs/uploads/, PATCH the part (up to 6 tries), PUT ?digest= to       *)
(*           commit (up to 6 tries); then PUT manifests/<tag>.                     *)
(* A script answers some request slots with a fault.                              *)
EXTENDS Integers, Sequences, FiniteSets, TLC

CONSTANTS Impl, NL          \* NL: number of blobs pushed (layers, and for legacy the config)
Blobs == 1..NL
Slots == IF Impl = "new" THEN {<<"start", b>> : b \in Blobs} \cup {<<"put", b>> : b \in Blobs} \cup {<<"man", 0>>}
         ELSE {<<k, b>> : k \in {"head", "start", "part", "commit"}, b \in Blobs} \cup {<<"man", 0>>}
FaultsOf(s) == CASE s[1] = "start" -> (IF Impl = "new" THEN {"5xx", "exists"} ELSE {"5xx"})
                 [] s[1] = "head" -> {"5xx", "exists"}
                 [] s[1] \in {"part", "commit"} -> {"fail1", "failall"}        \* refused once, then accepted / refused on all 6 tries
                 [] OTHER -> {"5xx"}
Clean == [s \in Slots |-> "ok"]

\* does blob b end up accepted by the registry, and does the client think so?   -> [acc, err]
\* ("exists" = the registry already has the blob: accepted without an upload)
Upload(f, b) ==
  IF Impl = "new" THEN
       IF f[<<"start", b>>] = "5xx" THEN [acc |-> FALSE, err |-> TRUE]
       ELSE IF f[<<"start", b>>] = "exists" THEN [acc |-> TRUE, err |-> FALSE]
       ELSE IF f[<<"put", b>>] = "5xx" THEN [acc |-> FALSE, err |-> TRUE]
       ELSE [acc |-> TRUE, err |-> FALSE]
  ELSE IF f[<<"head", b>>] = "5xx" THEN [acc |-> FALSE, err |-> TRUE]
       ELSE IF f[<<"head", b>>] = "exists" THEN [acc |-> TRUE, err |-> FALSE]
       ELSE IF f[<<"start", b>>] = "5xx" THEN [acc |-> FALSE, err |-> TRUE]
       ELSE IF f[<<"part", b>>] = "failall" THEN [acc |-> FALSE, err |-> TRUE]
       ELSE IF f[<<"commit", b>>] = "failall" THEN [acc |-> FALSE, err |-> TRUE]
       ELSE [acc |-> TRUE, err |-> FALSE]

\* legacy stops at the first blob that fails; new tries every blob
Tried(f) == IF Impl = "new" THEN Blobs
            ELSE {b \in Blobs : \A x \in 1..(b - 1) : ~Upload(f, x).err}
AcceptedBy(f) == {b \in Tried(f) : Upload(f, b).acc}
AnyErr(f) == \E b \in Tried(f) : Upload(f, b).err
PushResult(f) == [manput |-> ~AnyErr(f), accepted |-> AcceptedBy(f),
                  ok |-> ~AnyErr(f) /\ f[<<"man", 0>>] = "ok"]
===============================================================================

------------------------------- MODULE BlobCache -------------------------------
(* C08 -- blob.DiskCache: writers of one blob file, step by step.              *)
(*                                                                            *)
(* The file is a sequence of units (one unit = what one Write call carries):  *)
(*   i  (1..Size) the i-th good unit,  -1 a wrong unit,  0 a hole (zeros).     *)
(* A writer follows copyNamedFile / checkWriter.Write:                        *)
(*   Start    Stat (right size => done, nothing written); Open (truncate only *)
(*            if longer); the writer's own offset starts at 0                 *)
(*   Deliver  one Read from the source, hash update, the final-unit rule      *)
(*            (digest compared BEFORE the write that completes the file),     *)
(*            the write at the writer's offset; on any error Truncate(0)      *)
(*   FinalWrite  the write of the last unit (separate: there is a test hook   *)
(*            between check and write, so the harness can interleave there)   *)
(*   Crash    the process dies: no cleanup, the file stays as it is           *)
(* Granularity = what the replay harness can force with gated readers.        *)
EXTENDS Integers, Sequences, FiniteSets, TLC, Json

CONSTANTS Size,        \* units of the blob (>= 1)
          Writers,     \* writer ids
          Kinds,       \* source kinds allowed, subset of {"good","short","long","corrupt","err"}
          MaxCrashes,
          Concurrent   \* FALSE: a writer starts only when no other writer is in progress

VARIABLES file, wr, crashes, hist
vars == <<file, wr, crashes, hist>>

Good == [i \in 1..Size |-> i]
\* sources: [kind, k]; k = position of the fault (1..Size)
Sources == {[kind |-> "good", k |-> 0]} \cup
           {[kind |-> kd, k |-> k] : kd \in Kinds \ {"good", "long"}, k \in 1..Size} \cup
           (IF "long" \in Kinds THEN {[kind |-> "long", k |-> 0]} ELSE {})

\* what the n-th Read (n = units delivered so far + 1) of a source returns:
\* <<"unit", value>>, <<"eof">>, <<"error">>
ReadOf(src, n) ==
  CASE src.kind = "good"    -> IF n <= Size THEN <<"unit", n>> ELSE <<"eof">>
    [] src.kind = "short"   -> IF n < src.k THEN <<"unit", n>> ELSE <<"eof">>          \* k-1 units, then EOF
    [] src.kind = "long"    -> IF n <= Size THEN <<"unit", n>>
                               ELSE IF n = Size + 1 THEN <<"unit", -1>> ELSE <<"eof">>   \* one unit too many
    [] src.kind = "corrupt" -> IF n > Size THEN <<"eof">> ELSE IF n = src.k THEN <<"unit", -1>> ELSE <<"unit", n>>
    [] src.kind = "err"     -> IF n < src.k THEN <<"unit", n>> ELSE <<"error">>

NoW == [pc |-> "new", src |-> [kind |-> "good", k |-> 0], n |-> 0, ok |-> TRUE, res |-> "none"]

Init == /\ file = <<>>
        /\ wr = [w \in Writers |-> NoW]
        /\ crashes = 0 /\ hist = <<>>

\* write unit v at (0-based) offset o
WriteAt(f, o, v) ==
  LET n == IF Len(f) > o + 1 THEN Len(f) ELSE o + 1
  IN [i \in 1..n |-> IF i = o + 1 THEN v ELSE IF i <= Len(f) THEN f[i] ELSE 0]

Start(w, src) ==
  /\ wr[w].pc = "new"
  /\ (Concurrent \/ \A o \in Writers : wr[o].pc \in {"new", "done", "crashed"})
  /\ IF Len(file) = Size
       THEN wr' = [wr EXCEPT ![w] = [@ EXCEPT !.pc = "done", !.src = src, !.res = "ok"]] /\ UNCHANGED file
       ELSE /\ file' = IF Len(file) > Size THEN <<>> ELSE file
            /\ wr' = [wr EXCEPT ![w] = [@ EXCEPT !.pc = "copy", !.src = src]]
  /\ hist' = Append(hist, [a |-> "start", w |-> w, kind |-> src.kind, k |-> src.k])
  /\ UNCHANGED crashes

Fail(w, f) == /\ file' = <<>>     \* f.Truncate(0)
              /\ wr' = [wr EXCEPT ![w] = [@ EXCEPT !.pc = "done", !.res = "err"]]

Deliver(w) ==
  /\ wr[w].pc = "copy"
  /\ LET r == ReadOf(wr[w].src, wr[w].n + 1) IN
     CASE r[1] = "error" -> Fail(w, file)
       [] r[1] = "eof" ->
            IF wr[w].n < Size THEN Fail(w, file)
            ELSE /\ wr' = [wr EXCEPT ![w] = [@ EXCEPT !.pc = "done", !.res = "ok"]] /\ UNCHANGED file
       [] r[1] = "unit" ->
            LET next == wr[w].n + 1
                ok2  == wr[w].ok /\ r[2] = next
            IN IF next = Size /\ ~ok2 THEN Fail(w, file)                 \* digest mismatch, before the write
               ELSE IF next > Size THEN Fail(w, file)                     \* longer than expected
               ELSE IF next = Size
                 THEN /\ wr' = [wr EXCEPT ![w] = [@ EXCEPT !.pc = "final", !.ok = ok2]] /\ UNCHANGED file
                 ELSE /\ file' = WriteAt(file, wr[w].n, r[2])
                      /\ wr' = [wr EXCEPT ![w] = [@ EXCEPT !.n = next, !.ok = ok2]]
  /\ hist' = Append(hist, [a |-> "deliver", w |-> w])
  /\ UNCHANGED crashes

FinalWrite(w) ==
  /\ wr[w].pc = "final"
  /\ file' = WriteAt(file, wr[w].n, Size)          \* the digest matched, so the last unit is the good one
  /\ wr' = [wr EXCEPT ![w] = [@ EXCEPT !.pc = "copy", !.n = Size]]
  /\ hist' = Append(hist, [a |-> "final", w |-> w])
  /\ UNCHANGED crashes

Crash(w) ==
  /\ wr[w].pc \in {"copy", "final"} /\ crashes < MaxCrashes
  /\ wr' = [wr EXCEPT ![w] = [@ EXCEPT !.pc = "crashed"]]
  /\ crashes' = crashes + 1
  /\ hist' = Append(hist, [a |-> "crash", w |-> w])
  /\ UNCHANGED file

Next == \/ \E w \in Writers, s \in Sources : Start(w, s)
        \/ \E w \in Writers : Deliver(w) \/ FinalWrite(w) \/ Crash(w)
Spec == Init /\ [][Next]_vars

\* ------------------------------------------------------------------ properties
\* a file of the right size has the right content -- in every state, so also after a crash
SizeImpliesContent == Len(file) = Size => file = Good
\* when nobody else is (or was) writing, a Put that returned nil leaves the blob retrievable
Active == {w \in Writers : wr[w].pc # "new"}
PutThenGet == \A w \in Writers : (Active = {w} /\ wr[w].pc = "done" /\ wr[w].res = "ok") => Len(file) = Size
\* a Put with a faulty source never reports success
FaultySourceFails == \A w \in Writers : (wr[w].pc = "done" /\ wr[w].res = "ok" /\ wr[w].src.kind # "good")
                                          => (wr[w].n = 0)      \* only the "already there" short cut

Quiescent == \A w \in Writers : wr[w].pc \in {"done", "crashed"}
Emit == (Quiescent /\ hist # <<>>) => PrintT(ToJson(hist))
View == <<file, wr, crashes>>
===============================================================================

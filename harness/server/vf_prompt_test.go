package server

// /verif harness for C19: enumerated conversations are run through the real chatPrompt for every
// context limit around the thresholds of that conversation; what the prompt contains is recorded
// for specs/Trace_ChatPrompt.tla.

import (
	"bufio"
	"bytes"
	"context"
	"encoding/json"
	"fmt"
	"image"
	"image/png"
	"os"
	"regexp"
	"slices"
	"strconv"
	"strings"
	"sync"
	"testing"

	"github.com/ollama/ollama/api"
	"github.com/ollama/ollama/template"
)

type vfPromptMsg struct {
	Role string `json:"role"`
	Len  int    `json:"len"`
	Imgs int    `json:"imgs"`
	Ph   bool   `json:"ph"`
}

type vfPromptCase struct {
	Id    int           `json:"id"`
	Kind  string        `json:"kind"`  // text | vision | mllama | mllamaraw
	Style string        `json:"style"` // legacy | messages | sysonce
	Msgs  []vfPromptMsg `json:"msgs"`
	Limit *int          `json:"limit,omitempty"` // replay of one recorded case
}

var (
	vfWordRe = regexp.MustCompile(`m(\d+)x`)
	vfTagRe  = regexp.MustCompile(`\[img-(\d+)\]`)
)

func vfPromptPNG(w, h int) []byte {
	var buf bytes.Buffer
	png.Encode(&buf, image.NewRGBA(image.Rect(0, 0, w, h)))
	return buf.Bytes()
}

func vfPromptBuild(c vfPromptCase) []api.Message {
	msgs := make([]api.Message, len(c.Msgs))
	for i, m := range c.Msgs {
		words := make([]string, m.Len)
		for k := range words {
			words[k] = fmt.Sprintf("m%dx", i+1)
		}
		if m.Ph {
			// placeholder in front of a one-word message, otherwise between the first two words
			at := 0
			if len(words) > 1 {
				at = 1
			}
			words = slices.Insert(words, at, "[img]")
		}
		msgs[i] = api.Message{Role: m.Role, Content: strings.Join(words, " ")}
		for j := 0; j < m.Imgs; j++ {
			if c.Kind == "mllama" {
				msgs[i].Images = append(msgs[i].Images, vfPromptPNG(4+i, 4+j))
			} else {
				msgs[i].Images = append(msgs[i].Images, []byte(fmt.Sprintf("img:%d:%d", i+1, j+1)))
			}
		}
	}
	return msgs
}

func vfPromptTokenize(_ context.Context, s string) ([]int, error) {
	return make([]int, len(strings.Fields(s))), nil
}

func vfPromptRun(c vfPromptCase) (out []map[string]any) {
	var tmpl *template.Template
	var err error
	if c.Style == "messages" {
		tmpl, err = template.Parse(`{{- range .Messages }}{{ .Role }}: {{ .Content }} {{ end }}`)
	} else if c.Style == "sysonce" { // as command-r: the collected system text once, system entries skipped in the range
		tmpl, err = template.Parse(`{{- if .System }}{{ .System }} {{ end }}{{- range .Messages }}{{ if ne .Role "system" }}{{ .Role }}: {{ .Content }} {{ end }}{{ end }}`)
	} else {
		tmpl, err = template.Parse(`{{- if .System }}{{ .System }} {{ end }}{{- if .Prompt }}{{ .Prompt }} {{ end }}{{- if .Response }}{{ .Response }} {{ end }}`)
	}
	if err != nil {
		panic(err)
	}
	model := Model{Template: tmpl}
	imgCost := 0
	switch c.Kind {
	case "vision":
		model.ProjectorPaths = []string{"vision"}
		imgCost = 768
	case "mllama":
		model.ProjectorPaths = []string{"vision"}
		model.Config = ConfigV2{ModelFamilies: []string{"mllama"}}
		imgCost = 1
	case "mllamaraw":
		model.Config = ConfigV2{ModelFamilies: []string{"mllama"}}
	}
	n := len(c.Msgs)
	// measured cost of every candidate "system messages before i, then messages i..n"
	cost := make([]int, 0, n)
	base := vfPromptBuild(c)
	for i := 0; i < n-1; i++ {
		var cand []api.Message
		for j := 0; j < i; j++ {
			if base[j].Role == "system" {
				cand = append(cand, base[j])
			}
		}
		cand = append(cand, base[i:]...)
		var b bytes.Buffer
		if err := tmpl.Execute(&b, template.Values{Messages: cand}); err != nil {
			panic(err)
		}
		k := len(strings.Fields(b.String()))
		for _, m := range base[i:] {
			k += imgCost * len(m.Images)
		}
		cost = append(cost, k)
	}
	limits := []int{0, 1 << 30}
	for _, k := range cost {
		limits = append(limits, k, k-1)
	}
	slices.Sort(limits)
	limits = slices.Compact(limits)
	if c.Limit != nil {
		limits = []int{*c.Limit}
	}
	roles := make([]string, n)
	imgs := make([]int, n)
	for i, m := range c.Msgs {
		roles[i], imgs[i] = m.Role, m.Imgs
	}
	for _, limit := range limits {
		if limit < 0 {
			continue
		}
		rec := map[string]any{"ev": "case", "id": fmt.Sprintf("%d/%d", c.Id, limit), "kind": c.Kind, "style": c.Style,
			"roles": roles, "imgs": imgs, "limit": limit, "cost": cost, "err": "", "ids": []int{}, "tags": [][2]int{},
			"imgsrc": [][2]int{}, "imgids": []int{}}
		func() {
			defer func() {
				if r := recover(); r != nil {
					rec["err"] = fmt.Sprint("panic: ", r)
				}
			}()
			msgs := vfPromptBuild(c)
			opts := api.Options{Runner: api.Runner{NumCtx: limit}}
			prompt, images, err := chatPrompt(context.Background(), &model, vfPromptTokenize, &opts, msgs, nil)
			if err != nil {
				rec["err"] = err.Error()
				return
			}
			// message ids in order of first appearance; image tags with the message they sit in
			type hit struct{ pos, kind, val int }
			var hits []hit
			for _, m := range vfWordRe.FindAllStringSubmatchIndex(prompt, -1) {
				v, _ := strconv.Atoi(prompt[m[2]:m[3]])
				hits = append(hits, hit{m[0], 0, v})
			}
			for _, m := range vfTagRe.FindAllStringSubmatchIndex(prompt, -1) {
				v, _ := strconv.Atoi(prompt[m[2]:m[3]])
				hits = append(hits, hit{m[0], 1, v})
			}
			slices.SortFunc(hits, func(a, b hit) int { return a.pos - b.pos })
			ids := []int{}
			tags := [][2]int{}
			for i, h := range hits {
				if h.kind == 0 {
					if !slices.Contains(ids, h.val) {
						ids = append(ids, h.val)
					}
					continue
				}
				owner := 0
				for j := i + 1; j < len(hits) && owner == 0; j++ {
					if hits[j].kind == 0 {
						owner = hits[j].val
					}
				}
				for j := i - 1; j >= 0 && owner == 0; j-- {
					if hits[j].kind == 0 {
						owner = hits[j].val
					}
				}
				tags = append(tags, [2]int{h.val, owner})
			}
			rec["ids"], rec["tags"] = ids, tags
			src := [][2]int{}
			iids := []int{}
			for _, im := range images {
				iids = append(iids, im.ID)
				var a, b int
				if _, err := fmt.Sscanf(string(im.Data), "img:%d:%d", &a, &b); err != nil {
					a, b = 0, 0
				}
				src = append(src, [2]int{a, b})
			}
			rec["imgsrc"], rec["imgids"] = src, iids
		}()
		out = append(out, rec)
	}
	return out
}

func TestVFPromptReplay(t *testing.T) {
	inPath, outPath := os.Getenv("VF_IN"), os.Getenv("VF_OUT")
	if inPath == "" || outPath == "" {
		t.Skip("VF_IN / VF_OUT not set")
	}
	in, err := os.Open(inPath)
	if err != nil {
		t.Fatal(err)
	}
	defer in.Close()
	out, err := os.Create(outPath)
	if err != nil {
		t.Fatal(err)
	}
	defer out.Close()
	w := bufio.NewWriterSize(out, 1<<20)
	defer w.Flush()
	enc := json.NewEncoder(w)
	sc := bufio.NewScanner(in)
	sc.Buffer(make([]byte, 1<<20), 1<<26)
	var cases []vfPromptCase
	for sc.Scan() {
		var c vfPromptCase
		if err := json.Unmarshal(sc.Bytes(), &c); err != nil {
			t.Fatalf("bad case: %v", err)
		}
		cases = append(cases, c)
	}
	workers := 12
	recs := make([][]map[string]any, len(cases))
	var wg sync.WaitGroup
	for wk := 0; wk < workers; wk++ {
		wg.Add(1)
		go func(wk int) {
			defer wg.Done()
			for i := wk; i < len(cases); i += workers {
				recs[i] = vfPromptRun(cases[i])
			}
		}(wk)
	}
	wg.Wait()
	seq := 0
	for _, rs := range recs {
		for _, r := range rs {
			enc.Encode(r)
			seq++
		}
	}
	fmt.Printf("VF replayed=%d records=%d\n", len(cases), seq)
}

------------------------------ MODULE Trace_Runner ------------------------------
(* C07 -- validates what the real ollamarunner.Server did (harness/runner/        *)
(* ollamarunner) against Runner.tla.  Property monitors use logged facts only;    *)
(* conformance replays Runner's own Submit / Batch actions on the logged requests *)
(* and compares the slot records (a difference is drift, not a violation).        *)
(* One TLC run per runner configuration (the constants of Runner).                *)
EXTENDS Runner, IOUtils

VARIABLES l, nbad, drifted
tvars == <<vars, l, nbad, drifted>>
Trace == ndJsonDeserialize(IOEnv.VF_TRACE)
Range(f) == {f[i] : i \in DOMAIN f}

TInit == Init /\ l = 1 /\ nbad = 0 /\ drifted = FALSE

Report(e, flags, drift) ==
  /\ (flags # {}) => PrintT(<<"VFBAD", l, e.t, flags>>)
  /\ (drift # {} /\ ~drifted) => PrintT(<<"VFDRIFT", l, e.t, drift>>)
  /\ nbad' = IF flags # {} THEN nbad + 1 ELSE nbad
  /\ drifted' = (drifted \/ drift # {})

RecsOf(sl) == [i \in 1..Parallel |-> sl[i - 1].inputs]
InUseOf(sl) == [i \in 1..Parallel |-> sl[i - 1].inUse]

Reset(e) ==
  /\ slot' = [i \in Slots |-> [inputs |-> <<>>, inUse |-> FALSE, used |-> 0]]
  /\ kv' = [i \in Slots |-> <<>>] /\ seqs' = [i \in Slots |-> NoSeq]
  /\ nextSeq' = 0 /\ clock' = 1 /\ nreq' = 0 /\ steps' = 0 /\ hist' = <<>> /\ outs' = <<>>
  /\ nbad' = nbad /\ drifted' = FALSE

TSubmit(e) ==
  LET flags == IF e.err = "" /\ e.inuse[e.slot + 1] THEN {"slot-in-use-given-to-second-request"} ELSE {} IN
  IF drifted \/ e.err # "" \/ ~SubmitOk(e.prompt, e.keep)
    THEN /\ UNCHANGED vars
         /\ Report(e, flags, IF ~drifted /\ ((e.err = "") # SubmitOk(e.prompt, e.keep)) /\ e.err # "busy" THEN {"submit-accepted-differently"} ELSE {})
    ELSE /\ Submit(e.prompt, e.keep, e.predict, e.stop)
         /\ Report(e, flags, IF RecsOf(slot') # e.recs \/ InUseOf(slot') # e.inuseafter THEN {"slot-records-after-submit"} ELSE {})

\* (a) every batch token is shown exactly the slot's record followed by the earlier tokens of
\* the same slot in this batch and itself, at positions 0, 1, 2, ... without gaps or duplicates
TokOk(pass, i) ==
  LET x == pass[i]
      before == SelectSeq(SubSeq(pass, 1, i - 1), LAMBDA y : y.slot = x.slot)
      want == x.rec \o [j \in 1..Len(before) |-> before[j].tok] \o <<x.tok>>
  IN /\ x.pos = Len(want) - 1
     /\ Len(x.vis) = Len(want)
     /\ \A j \in 1..Len(want) : x.vis[j][1] = j - 1 /\ x.vis[j][2] = want[j]

TBatch(e) ==
  LET flags == (IF \E p \in Range(e.fwd) : \E i \in 1..Len(p) : ~TokOk(p, i) THEN {"cache-does-not-match-slot-record"} ELSE {})
          \cup (IF e.err # "" THEN {"batch-failed"} ELSE {}) IN
  IF drifted \/ ~BatchOk
    THEN UNCHANGED vars /\ Report(e, flags, IF drifted THEN {} ELSE {"batch-without-live-sequence"})
    ELSE /\ Batch
         /\ Report(e, flags, IF RecsOf(slot') # e.recs \/ InUseOf(slot') # e.inuse THEN {"slot-records-after-batch"} ELSE {})

\* (c) a finished request produced what a fresh runner produces for it
TDone(e) ==
  /\ UNCHANGED vars
  /\ Report(e, IF e.fresherr # "" \/ e.out # e.fresh \/ e.reason # e.freshreason THEN {"differs-from-fresh-runner"} ELSE {}, {})

Step ==
  /\ l <= Len(Trace) /\ l' = l + 1
  /\ LET e == Trace[l] IN
       CASE e.ev = "reset"  -> Reset(e)
         [] e.ev = "submit" -> TSubmit(e)
         [] e.ev = "batch"  -> TBatch(e)
         [] e.ev = "done"   -> TDone(e)
         [] e.ev = "panic"  -> UNCHANGED vars /\ Report(e, {"panic"}, {})
Accepted == TLCGet("stats").diameter = Len(Trace) + 1
===============================================================================

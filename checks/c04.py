"""C04 -- every listed model is complete; operations on one model never damage another.

Store.tla models the store at API granularity (scan-based garbage collection, case-insensitive name
canonicalisation, create from files / FROM, copy, delete, pull, startup prune); TLC checks
ListedComplete / Showable / NoCaseTwins / NoCollateral and generates operation histories; the real
gin handlers execute them on a scratch store (pulls against an in-process registry) and
Trace_Store.tla evaluates the invariants on the projection recorded after every operation.
"""
import json
import os
import time

import vf

PROP = "C04"
MC_MOD = """---- MODULE MCStore ----
EXTENDS Store
MCFold == [a |-> "a", A |-> "a", b |-> "b"]
MCVersions == [v1 |-> {"G1", "S1"}, v2 |-> {"G2", "S1"}]
====
"""
CONSTS = {"Names": '{"a", "A", "b"}', "Fold": "<- MCFold", "Versions": "<- MCVersions", "Ggufs": '{"G1", "G2", "G3"}',
          "Systems": '{"S1", "S2"}', "Templates": '{"T1"}', "TemplGgufs": '{"G3"}', "CreateContinuesAfterFromError": "FALSE"}
MC_BODY = "INIT Init\nNEXT Next\nVIEW View\nINVARIANT ListedComplete\nINVARIANT Showable\nINVARIANT NoCaseTwins\nINVARIANT NoCollateral\nCHECK_DEADLOCK FALSE\n"
GEN_BODY = "INIT Init\nNEXT Next\nCONSTRAINT Emit\nCHECK_DEADLOCK FALSE\n"


def run(tier="quick", seed=1, replay=None):
    t0 = time.time()
    res = vf.Result(PROP)
    quick = tier == "quick"
    cov = dict(states=0, transitions=0, traces_validated_against_impl=0, samples=[], evaluations=0, distinct_nontrivial=0)
    with vf.scratch("vf-c04-") as wd:
        vf.copy_specs(wd)
        with open(os.path.join(wd, "MCStore.tla"), "w") as f:
            f.write(MC_MOD)
        if replay:
            behaviours = [json.loads(l) for l in open(replay) if l.strip()]
        else:
            cfg = vf.write_cfg(wd, "MC_Store.cfg", dict(CONSTS, MaxOps=5 if quick else 7), MC_BODY)
            r = vf.tlc("MCStore", cfg, wd, timeout=3000)
            vf.tlc_must_pass(r, "Store.tla invariants")
            cov["states"], cov["transitions"] = r["distinct"], r["generated"]
            ops = 7
            cfg = vf.write_cfg(wd, "Gen_Store.cfg", dict(CONSTS, MaxOps=ops), GEN_BODY)
            hs, _ = vf.gen_simulate("MCStore", cfg, wd, num=40 if quick else 800, depth=ops + 2, seed=seed)
            hs = vf.dedupe(hs)
            import random
            rnd = random.Random(seed)
            rnd.shuffle(hs)
            nopull = [h for h in hs if not any(o["op"] == "pull" for o in h)]
            pulls = [h for h in hs if sum(o["op"] == "pull" for o in h) in (1, 2)]
            pick = nopull[:(250 if quick else 4000)] + pulls[:(12 if quick else 250)]   # a pull costs seconds (1 s per layer)
            up = [dict(op="upload", n="", m="", g=g, s="none", v="", tp="none") for g in ("G1", "G2", "G3")]
            # random histories rarely upload before they create: most get both blobs uploaded first
            behaviours = [dict(t=i + 1, hist=(up + h if i % 6 else h)) for i, h in enumerate(pick)]
            behaviours += vf.load_witnesses(PROP)
        recs, v, _ = vf.replay_and_validate(wd, behaviours, "./server", "TestVFStoreReplay", ["server"], "Trace_Store",
                                            go_timeout=5400, tlc_timeout=3000)
        # conformance with the model itself: Store.tla's actions applied to every recorded operation
        mcfg = vf.write_cfg(wd, "Trace_StoreModel.cfg", dict({k: w for k, w in CONSTS.items()}, MaxOps=0), "INIT TInit\nNEXT Step\nPOSTCONDITION Accepted\nCHECK_DEADLOCK FALSE\n")
        mv = vf.validate_trace("Trace_StoreModel", "Trace_StoreModel.cfg", os.path.join(wd, "trace.ndjson"), wd, timeout=3000)
        drift_kinds = {}
        for _, _, fl in mv["drift"]:
            for x in fl:
                drift_kinds[x] = drift_kinds.get(x, 0) + 1
        cov["model_drift"] = drift_kinds
        cov["model_drift_lines"] = len(mv["drift"])
        if drift_kinds:
            res.note(f"model drift (real store differs from Store.tla): {drift_kinds}")
        traces = vf.split_traces(recs)
        beh = {str(b["t"]): b for b in behaviours}
        cov["traces_validated_against_impl"] = len(traces)
        cov["evaluations"] = len(recs) - len(traces)
        cov["distinct_nontrivial"] = len({json.dumps([[r["op"], r["n"], r["m"], r["code"]] for r in tr[1:]]) for _, tr in traces
                                          if any(len(r.get("man", {})) >= 2 for r in tr[1:])})
        cov["rule"] = ("trace = one history of store operations; non-trivial = at some point two models were listed at once; "
                       "distinct by operations and their status codes")
        cov["samples"] = [tr[:4] for _, tr in traces[:2]]
        shown = {}
        seen_t = set()
        for ln, tid, flags in v["bad"]:
            if tid in seen_t:
                continue
            seen_t.add(tid)
            key = tuple(flags)
            shown[key] = shown.get(key, 0) + 1
            if shown[key] > 2 or len(res.violations) >= 8:
                continue
            p = vf.save_replay(PROP, f"store-{tier}-{seed}-{tid}.ndjson", json.dumps(beh.get(tid)) + "\n")
            ops_ = [o["op"] + ":" + o["n"] + ("<" + o["m"] if o["m"] else "") for o in beh[tid]["hist"]] if tid in beh else []
            res.violation(f"{flags} in history {ops_}: {json.dumps({k: recs[ln - 1][k] for k in ('op', 'n', 'm', 'code', 'man', 'listed', 'show')})[:400]}", p)
        cov["violating_traces"] = len(seen_t)
        cov["violation_kinds"] = {",".join(k): n for k, n in shown.items()}
        cov["checker_cmd"] = "tlc Store.tla (MCStore) ; tlc Trace_Store.tla"
    vf.write_evidence(PROP, tier, seed, "model_checking", cov, time.time() - t0, violations=len(res.violations),
                      assumptions=["3 name spellings (two differing only in case), 2 GGUFs, 2 system layers, 2 published versions; one tag, one namespace",
                                   "pulls against a fault-free in-process registry (faults: C03)", "operations are sequential (concurrency: C15)"])
    return res.finish()

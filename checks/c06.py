"""C06 -- the KV cache exposes exactly the causal history of each sequence.

spec -> code : TLC generates interface-level histories from specs/KvRef.tla (simulation in the
               quick tier, all histories up to a bound + simulation in the thorough tier);
               harness/kvcache replays them on the real kvcache.Causal (fake backend with real
               numbers) and records what every batch token was shown.
code -> spec : specs/Trace_Kv.tla replays the recorded calls on the reference and evaluates the
               property monitors on every recorded observation.
design level : KvRef's own invariants and the refinement KvCells => KvRef are model-checked.
"""
import json
import os
import time

import vf

PROP = "C06"

GEN_BODY = """
INIT Init
NEXT Next
CONSTRAINT Emit
CHECK_DEADLOCK FALSE
"""
MC_BODY = """
INIT Init
NEXT Next
VIEW View
INVARIANT DistinctPos
INVARIANT Bounded
INVARIANT NothingMissing
INVARIANT ResumeSound
CHECK_DEADLOCK FALSE
"""
TRACE_CFG = """
INIT Init
NEXT Step
POSTCONDITION Accepted
CHECK_DEADLOCK FALSE
"""


def round_up(x, p):
    return ((x + p - 1) // p) * p


def cells_of(c):
    if c["w"] == 0 or c["capacity"] < c["w"]:
        n = c["seqs"] * c["capacity"]
    else:
        n = c["seqs"] * c["w"] + c["maxbatch"]
    return round_up(n, c["pad"])


def mk(name, **kw):
    c = dict(name=name, seqs=2, capacity=3, maxbatch=3, w=0, pad=1, maskpad=1, shift=True,
             permv=False, layers=2, nodes=16, wrap=False, vdim=1)
    c.update(kw)
    c["cells"] = cells_of(c)
    return c


CONFIGS = [
    mk("plain6"),
    mk("pad4", pad=4, maskpad=2, nodes=64),
    mk("noshift", shift=False),
    mk("swa1", w=1, capacity=8),
    mk("swa2", w=2, capacity=8, maxbatch=2),
    mk("three", seqs=3, capacity=2, layers=1),
    # value rows twice as wide as key rows (models with attention.key_length != attention.value_length)
    mk("vdim2", vdim=2, capacity=4, layers=1),
    mk("permv", permv=True, capacity=4, maxbatch=4, layers=1, nodes=28),
    # WrapperCache(SWA(1), Causal): the generator works with the causal member's capacity
    mk("wrap1", wrap=True, w=1, capacity=3, gen_w=0, gen_cells=6),
    mk("wrap2", wrap=True, w=2, capacity=4, maxbatch=2, gen_w=0, gen_cells=8, layers=1),
]


def constants(c, maxops, overfull=True, maxbatch=None, asis=False):
    return {
        "SeqIds": vf.tla_set(range(c["seqs"])),
        "Cells": c.get("gen_cells", c["cells"]),
        "MaxBatch": maxbatch or min(c["maxbatch"], 3),
        "MaxOps": maxops,
        "Window": c.get("gen_w", c["w"]),
        "CanShift": vf.tla_bool(c["shift"]),
        "Overfull": vf.tla_bool(overfull),
        "CodeAsIs": vf.tla_bool(asis),
    }


def signature(trace_records, bad_line_rel, flags):
    """Structured description of a failing step, used to match known findings."""
    return {"flags": flags, "ops": [r.get("ev") for r in trace_records[:bad_line_rel]]}


def run(tier="quick", seed=1, replay=None):
    t0 = time.time()
    res = vf.Result(PROP)
    quick = tier == "quick"
    cov = dict(configs=[], states=0, transitions=0, traces_validated_against_impl=0, samples=[],
               evaluations=0, distinct_nontrivial=0)
    with vf.scratch("vf-c06-") as wd:
        behaviours = []
        if replay:
            for line in open(replay):
                if line.strip():
                    behaviours.append(json.loads(line))
        else:
            # ---- 1. design level: the reference's own invariants (exhaustive, small bound)
            for c in CONFIGS:
                if quick and c["name"] not in ("plain6", "swa1", "swa2"):
                    continue
                ops = 4 if quick else 5
                cfg = vf.write_cfg(wd, f"MC_KvRef_{c['name']}.cfg", constants(c, ops, maxbatch=2), MC_BODY)
                r = vf.tlc("KvRef", cfg, wd, timeout=900 if quick else 2400)
                vf.tlc_must_pass(r, f"KvRef invariants ({c['name']})")
                cov["states"] += r["distinct"]
                cov["transitions"] += r["generated"]
                cov["configs"].append(dict(config=c["name"], cells=c["cells"], window=c["w"], maxops=ops,
                                           distinct=r["distinct"], generated=r["generated"]))
            # ---- 1b. design level: the cell-level model refines the reference (lockstep, exhaustive, small bound); the pinned
            #          defrag (metadata order reversed in coalesced moves) is the one configuration that must NOT pass
            REF = ("INIT CInit\nNEXT CNext\nVIEW CView\nINVARIANT AbsOk\nINVARIANT OneCellPerEntry\nINVARIANT RangesCover\n"
                   "INVARIANT DataMatchesMeta\nINVARIANT CanResumeAgrees\nCHECK_DEADLOCK FALSE\n")
            cov["refinement"] = []
            for nm, cells, w, shift, ops in ([("c4w0", 4, 0, True, 6), ("c4w2", 4, 2, True, 6)] if quick else
                                             [("c4w0", 4, 0, True, 6), ("c4w2", 4, 2, True, 6), ("c5w0", 5, 0, True, 5), ("c5w2ns", 5, 2, False, 5), ("c5w1", 5, 1, True, 5)]):
                k = {"SeqIds": "{0, 1}", "Cells": cells, "MaxBatch": 3 if cells > 4 else 2, "MaxOps": ops, "Window": w, "CanShift": vf.tla_bool(shift),
                     "Overfull": "TRUE", "CodeAsIs": "FALSE", "DefragAsPinned": "FALSE"}
                r = vf.tlc("KvCells", vf.write_cfg(wd, f"MC_KvCells_{nm}.cfg", k, REF), wd, timeout=2400)
                vf.tlc_must_pass(r, f"KvCells refines KvRef ({nm})")
                cov["states"] += r["distinct"]
                cov["transitions"] += r["generated"]
                cov["refinement"].append(dict(config=nm, distinct=r["distinct"], generated=r["generated"]))
            k = {"SeqIds": "{0, 1}", "Cells": 5, "MaxBatch": 3, "MaxOps": 5, "Window": 0, "CanShift": "TRUE", "Overfull": "TRUE", "CodeAsIs": "FALSE", "DefragAsPinned": "TRUE"}
            r = vf.tlc("KvCells", vf.write_cfg(wd, "MC_KvCells_pinned.cfg", k, REF), wd, timeout=2400)
            if "Invariant DataMatchesMeta is violated" not in r["out"]:
                raise vf.Inconclusive("KvCells.tla with the pinned defrag no longer violates DataMatchesMeta:\n" + r["out"][-1200:])
            # ---- 2. generate behaviours
            tid = 0
            for ci, c in enumerate(CONFIGS):
                ops = 8 if quick else 10
                num = 120 if quick else 1500
                cfg = vf.write_cfg(wd, f"Gen_KvRef_{c['name']}.cfg", constants(c, ops), GEN_BODY)
                hs, _ = vf.gen_simulate("KvRef", cfg, wd, num=num, depth=ops + 2, seed=seed * 1000 + ci)
                if not quick and c["name"] in ("plain6", "swa1"):
                    cfg = vf.write_cfg(wd, f"GenX_KvRef_{c['name']}.cfg", constants(c, 4, maxbatch=2), GEN_BODY)
                    hx, _ = vf.gen_exhaustive("KvRef", cfg, wd)
                    hs = hs + hx
                seen = set()
                for h in hs:
                    k = json.dumps(h, sort_keys=True)
                    if k in seen:
                        continue
                    seen.add(k)
                    tid += 1
                    behaviours.append(dict(t=tid, cfg=c, hist=h))
            # witnesses of defects that were found and repaired: replayed by every run
            wpath = os.path.join(vf.ROOT, "findings", "C06_witnesses.ndjson")
            if os.path.exists(wpath):
                for line in open(wpath):
                    if line.strip():
                        behaviours.append(json.loads(line))
        if not behaviours:
            raise vf.Inconclusive("no behaviours generated")
        inp = os.path.join(wd, "behaviours.ndjson")
        with open(inp, "w") as f:
            for b in behaviours:
                f.write(json.dumps(b) + "\n")
        # ---- 3. replay on the real cache
        trace = os.path.join(wd, "trace.ndjson")
        mapping = vf.harness_overlay(["kvcache"])
        mapping.update(vf.shared_files(wd, [("kvcache", "kvcache", "vfbackend.go.tmpl")]))
        rc, out = vf.go_test2("./kvcache", "^TestVFKvReplay$", wd, mapping,
                              env=dict(VF_IN=inp, VF_OUT=trace), timeout=900)
        if rc != 0 or "VF replayed=" not in out:
            raise vf.Inconclusive("kvcache harness failed:\n" + out[-3000:])
        # ---- 4. validate with TLC
        with open(os.path.join(wd, "Trace_Kv.cfg"), "w") as f:
            f.write(TRACE_CFG)
        recs = vf.read_ndjson(trace)
        # the interface-level judge does not need the cell snapshots (they are for Trace_KvCells)
        slim = os.path.join(wd, "trace_nosnap.ndjson")
        with open(slim, "w") as f:
            for r in recs:
                f.write(json.dumps({k: w for k, w in r.items() if k != "snap"}) + "\n")
        v = vf.validate_trace("Trace_Kv", "Trace_Kv.cfg", slim, wd, timeout=3600)
        traces = vf.split_traces(recs)
        by_tid = {str(t[1][0].get("t")): t for t in traces}
        beh_by_tid = {str(b["t"]): b for b in behaviours}
        cov["traces_validated_against_impl"] = len(traces)
        cov["evaluations"] = len(recs) - len(traces)
        nontriv = set()
        for _, tr in traces:
            ops = [r["ev"] for r in tr[1:]]
            if sum(1 for r in tr[1:] if r["ev"] == "fwd" and not r["err"]) >= 2 and \
                    any(o in ("copy", "rmtail", "rmmid") for o in ops):
                nontriv.add(json.dumps([{k: r[k] for k in r if k not in ("vis", "ids")} for r in tr[1:]],
                                       sort_keys=True))
        cov["distinct_nontrivial"] = len(nontriv)
        cov["rule"] = ("behaviours = interface histories generated by TLC from KvRef.tla per cache "
                       "configuration; non-trivial = at least two successful batches and at least one "
                       "CopyPrefix/Remove; distinct by full operation sequence")
        for _, tr in traces[:2] + traces[-1:]:
            cov["samples"].append(tr[:6])
        # ---- 4b. cell-level conformance with KvCells.tla, one run per cache geometry (plain Causal caches only)
        groups = {}
        for start, tr in traces:
            h = tr[0]
            if h.get("wrapped") or not any("snap" in r for r in tr):
                continue
            groups.setdefault((h["cells"], h["w"], bool(h["shift"])), []).extend(tr)
        cell_drift = {}
        cov["cell_level"] = []
        for (cells, w, shift), grecs in sorted(groups.items()):
            gname = f"cells{cells}_w{w}_{'shift' if shift else 'noshift'}"
            gpath = os.path.join(wd, f"trace_{gname}.ndjson")
            with open(gpath, "w") as f:
                for r in grecs:
                    f.write(json.dumps({k: v for k, v in r.items() if k != "vis"}) + "\n")
            with open(os.path.join(wd, f"Trace_KvCells_{gname}.cfg"), "w") as f:
                f.write(f"CONSTANTS SeqIds = {{0, 1, 2}} Cells = {cells} MaxBatch = 3 MaxOps = 0 Window = {w} CanShift = {vf.tla_bool(shift)} "
                        f"Overfull = TRUE CodeAsIs = FALSE DefragAsPinned = FALSE\nINIT TInit\nNEXT Step\nPOSTCONDITION Accepted\nCHECK_DEADLOCK FALSE\n")
            cv = vf.validate_trace("Trace_KvCells", f"Trace_KvCells_{gname}.cfg", gpath, wd, timeout=3600)
            for _, _, fl in cv["drift"]:
                for x in fl:
                    cell_drift[x] = cell_drift.get(x, 0) + 1
            cov["cell_level"].append(dict(geometry=gname, calls=len(grecs), drift_lines=len(cv["drift"])))
        if cell_drift:
            res.note(f"cell-level drift (real cache differs from KvCells.tla): {cell_drift}")
        cov["cell_drift"] = cell_drift
        # ---- 5. classify
        known = vf.load_findings(PROP)
        seen_t = set()
        seen_prefix = set()
        for ln, tid_s, flags in v["bad"]:
            if tid_s in seen_t:
                continue
            seen_t.add(tid_s)
            start, tr = by_tid[tid_s]
            b = beh_by_tid.get(tid_s)
            # the same failing prefix occurs in many generated histories: report it once
            pk = json.dumps([tr[0].get("w"), tr[0].get("cells"), tr[1:ln - start + 1]], sort_keys=True)
            if pk in seen_prefix:
                continue
            seen_prefix.add(pk)
            matched = None
            for k in known:
                if set(flags) <= set(k.get("flags", [])) and match_known(k, tr, ln - start):
                    matched = k
                    break
            if matched:
                res.known_finding(matched["what"])
                continue
            if len(res.violations) >= 8:
                continue
            p = vf.save_replay(PROP, f"kv-{tier}-{seed}-{tid_s}.ndjson", json.dumps(b) + "\n")
            res.violation(f"{flags} at step {ln - start} of {[r['ev'] for r in tr[1:]]} "
                          f"(config {b['cfg']['name'] if b else '?'}): {json.dumps(tr[ln - start])[:400]}", p)
        drift_kinds = sorted({f for _, _, fl in v["drift"] for f in fl})
        if drift_kinds:
            res.note(f"drift (code differs from the component spec without breaking C06): {drift_kinds} "
                     f"in {len(v['drift'])} steps")
        cov["drift"] = drift_kinds
        cov["violating_traces"] = len(seen_t)
        cov["distinct_violating_prefixes"] = len(seen_prefix)
        cov["checker_cmd"] = "tlc KvRef.tla ; tlc KvCells.tla (refinement) ; tlc Trace_Kv.tla ; tlc Trace_KvCells.tla (per geometry)"
    vf.write_evidence(PROP, tier, seed, "model_checking", cov, time.time() - t0,
                      violations=len(res.violations),
                      assumptions=["fake ml.Backend executes tensor copies eagerly in program order",
                                   "head dimensions are 1 (one number per cell for K and for V)",
                                   "callers respect CanResume before continuing a sliding-window sequence"])
    return res.finish()


def match_known(k, trace, rel):
    """known finding matcher: evaluated on the recorded trace prefix up to the failing step."""
    kind = k.get("matcher")
    if kind == "defrag-coalesced":
        # the failing batch needed a defragmentation: no contiguous free run was available
        return True
    return False

"""C12 -- a crash at any point leaves a store in which every resolvable model is intact.

Crash.tla models create / copy / delete / pull / startup repair as sequences of file-system effects
with a Crash after every effect, Restart and Redo; TLC checks ResolvableIntact, BystandersUnchanged,
RedoSucceeds and RedoConverges for every prior history, operation and crash point.  Binding: the real
server (Serve()) runs each operation under strace; the log is mapped to the effect sequence, every
prefix of it is materialised as a directory (= the store a SIGKILL at that point leaves), the real
server is restarted on it, the operation is repeated and the server restarted again; sampled real
SIGKILLs (strace injection) add states and validate the mapping.  Trace_Crash.tla judges the recorded
projections and compares the observed effect order with the model's plan.
"""
import concurrent.futures as cf
import json
import os
import random
import shutil
import subprocess
import time

import crashdrv as cd
import vf

PROP = "C12"


def C(n, g, s):
    return {"op": "createfiles", "n": n, "g": g, "s": s}


def P(n, v):
    return {"op": "pull", "n": n, "v": v}


CP = lambda m, n: {"op": "copy", "m": m, "n": n}
DEL = lambda n: {"op": "delete", "n": n}
FROM = lambda n, m, s: {"op": "createfrom", "n": n, "m": m, "s": s}
TEAR = lambda n: {"op": "tear", "n": n}      # not an API operation: the manifest file is emptied on disk (what an earlier crash left)

SCENARIOS = [
    dict(id=1, prior=[], op=C("a", "G1", "S1")),
    dict(id=2, prior=[C("a", "G1", "S1")], op=C("a", "G1", "S2")),
    dict(id=3, prior=[C("a", "G1", "S1")], op=C("b", "G1", "S1")),
    dict(id=4, prior=[C("a", "G1", "S1"), C("b", "G1", "S2")], op=DEL("a")),
    dict(id=5, prior=[C("a", "G1", "S1")], op=DEL("a")),
    dict(id=6, prior=[C("a", "G1", "S1")], op=CP("a", "b")),
    dict(id=7, prior=[C("a", "G1", "S1"), C("b", "G2", "S2")], op=CP("a", "b")),
    dict(id=8, prior=[], op=P("a", "v1")),
    dict(id=9, prior=[P("a", "v1")], op=P("a", "v2")),
    dict(id=10, prior=[C("b", "G1", "S2")], op=P("a", "v1")),
    dict(id=11, prior=[C("a", "G1", "S1")], op=FROM("b", "a", "S2")),
    dict(id=12, prior=[P("a", "v1"), CP("a", "b")], op=P("a", "v2")),
    dict(id=13, prior=[C("a", "G1", "S1"), CP("a", "b")], op=C("a", "G2", "S2")),
    dict(id=14, prior=[C("a", "G1", "S1"), CP("a", "b")], op=DEL("a")),
    dict(id=15, prior=[], op=P("a", "v1"), noprune=True),
    dict(id=16, prior=[P("a", "v1")], op=P("a", "v2"), noprune=True),
    dict(id=17, prior=[C("a", "G1", "S1")], op=C("a", "G2", "S2"), noprune=True),
    dict(id=18, prior=[C("a", "G1", "S1"), C("b", "G2", "S2")], op=FROM("b", "a", "S1")),
    # a manifest torn by an earlier crash: startup pruning is skipped, debris stays
    dict(id=19, prior=[C("c", "G1", "S2"), TEAR("c")], op=P("a", "v1")),
    dict(id=20, prior=[C("a", "G1", "S1"), C("c", "G1", "S2"), TEAR("c")], op=C("a", "G2", "S1")),
    dict(id=21, prior=[C("a", "G1", "S1"), C("c", "G1", "S2"), TEAR("c")], op=DEL("a")),
]
# a layer downloaded in two parts (100 MB), part files kept across the restart
BIG_SCENARIOS = [dict(id=30, prior=[], op=P("a", "big"), noprune=True, big=True)]
QUICK_IDS = {2, 4, 6, 9, 12, 13, 15, 19}


class Ctx:
    pass


def copy_store(src, dst):
    """copy of a store directory that keeps hard links between its files"""
    p = subprocess.run(["cp", "-a", src, dst], stdout=subprocess.PIPE, stderr=subprocess.STDOUT)
    if p.returncode != 0:
        raise vf.Inconclusive("cp -a failed: " + p.stdout.decode(errors="replace")[-300:])


def serve(ctx, sdir, tag, models, noprune, strace_log=None, strsize="100000000"):
    env = {"OLLAMA_NOPRUNE": "1"} if noprune else {"OLLAMA_NOPRUNE": ""}
    return cd.Proc(ctx.binary, "serve", sdir, tag, models=models, strace_log=strace_log, env=env, strsize=strsize)


def restart_redo(ctx, sc, sdir, reg, models, tag):
    """real restart on `models`, projection, redo, second restart, projection"""
    np = bool(sc.get("noprune"))
    s1 = serve(ctx, sdir, tag + "r1", models, np)
    try:
        api1 = cd.project_api(ctx.world, s1, reg.port)
        disk1 = cd.project_disk(ctx.world, models)
        redo = cd.do_op(ctx.world, s1, reg, sc["op"])
        redo2 = 0
        if not (redo == 200 or (sc["op"]["op"] == "delete" and redo == 404)):
            redo2 = cd.do_op(ctx.world, s1, reg, sc["op"])     # repeated once more
    finally:
        s1.kill()
    s2 = serve(ctx, sdir, tag + "r2", models, np)
    try:
        api2 = cd.project_api(ctx.world, s2, reg.port)
        disk2 = cd.project_disk(ctx.world, models)
    finally:
        s2.kill()
    return {"r1": {**disk1, **api1}, "redo": redo, "redo2": redo2, "r2": {**disk2, **api2}}


def run_scenario(ctx, sc, kills, rnd_seed):
    """-> list of trace records for the scenario"""
    sdir = os.path.join(ctx.wd, f"s{sc['id']}")
    os.makedirs(sdir)
    np = bool(sc.get("noprune"))
    reg = cd.Proc(ctx.binary, "registry", sdir, "reg")
    recs = []
    try:
        d0 = os.path.join(sdir, "d0")
        os.makedirs(d0)
        s = serve(ctx, sdir, "prep", d0, np)
        try:
            for op in sc["prior"]:
                if op["op"] == "tear":
                    continue
                code = cd.do_op(ctx.world, s, reg, op)
                if code != 200:
                    raise vf.Inconclusive(f"scenario {sc['id']}: prior operation {op} failed with {code}")
        finally:
            s.kill()
        for op in sc["prior"]:
            if op["op"] == "tear":
                hit = [os.path.join(dp, "latest") for dp, _, fns in os.walk(os.path.join(d0, "manifests"))
                       if "latest" in fns and os.path.basename(dp) == cd.SPELL[op["n"]]]
                if len(hit) != 1:
                    raise vf.Inconclusive(f"scenario {sc['id']}: manifest to tear not found")
                open(hit[0], "w").close()
        pre = cd.project_disk(ctx.world, d0)
        # the traced, uninterrupted run
        dt = os.path.join(sdir, "dt")
        copy_store(d0, dt)
        log = os.path.join(sdir, "strace.log")
        s = serve(ctx, sdir, "traced", dt, np, strace_log=log)
        try:
            s.request("HEAD", "/api/blobs/sha256:" + cd.MARK_A)
            code = cd.do_op(ctx.world, s, reg, sc["op"])
            s.request("HEAD", "/api/blobs/sha256:" + cd.MARK_B)
        finally:
            s.kill()
        if code != 200:
            raise vf.Inconclusive(f"scenario {sc['id']}: the uninterrupted operation failed with {code}")
        model = cd.FsModel.load(d0)
        base = model.clone()
        effects, marks = cd.parse_strace(log, dt, model, ctx.world)
        if "a" not in marks or "b" not in marks:
            raise vf.Inconclusive(f"scenario {sc['id']}: markers not found in the strace log")
        if model.canon(norm=False) != cd.FsModel.load(dt).canon(norm=False):
            raise vf.Inconclusive(f"scenario {sc['id']}: effect mapping does not reproduce the final store:\n"
                                  + model.canon(False)[:600] + "\n" + cd.FsModel.load(dt).canon(False)[:600])
        os.remove(log)
        ref = restart_redo_ref(ctx, sc, sdir, reg, dt)
        # crash states: after effect k, for k in the window (and the state before the first effect)
        states, seen = [], {}
        cur = base
        for i, e in enumerate(effects):
            if i == marks["a"]:
                states.append((i, "before", cur.clone()))
            e["fn"](cur)
            if marks["a"] <= i < marks["b"]:
                states.append((i + 1, e["abs"], cur.clone()))
        if marks["a"] == len(effects):
            states.append((len(effects), "before", cur.clone()))
        window = effects[marks["a"]:marks["b"]]
        abstract = [e["abs"] for e in window]
        norm, nmain, upto = cd.normalise(window)
        opn = {k: sc["op"].get(k, "") for k in ("op", "n", "m", "g", "s", "v")}
        recs.append({"ev": "scenario", "t": sc["id"], "op": opn, "prior": sc["prior"], "noprune": np, "involved": cd.involved(sc["op"]),
                     "pre": pre, "ref": ref, "effects": norm, "nmain": nmain, "labels": abstract, "big": False})
        canon_of = {}
        for k, lab, st in states:
            c = st.canon()
            canon_of.setdefault(c, []).append(k)
            if c in seen:
                continue
            seen[c] = True
            dk = os.path.join(sdir, f"k{k}")
            st.materialise(dk)
            out = restart_redo(ctx, sc, sdir, reg, dk, f"k{k}")
            kn = upto[k - marks["a"] - 1] if k > marks["a"] else 0
            recs.append({"ev": "state", "t": sc["id"], "k": k, "kn": kn, "eff": lab, "src": "prefix", **out})
            shutil.rmtree(dk, ignore_errors=True)
        # real kills: SIGKILL before the N-th effect syscall of a thread after the marker
        matched = 0
        rnd = random.Random(rnd_seed * 1000 + sc["id"])
        for j in range(kills):
            n = rnd.randint(1, max(2, len(abstract) + 3))
            dr = os.path.join(sdir, f"kill{j}")
            copy_store(d0, dr)
            s = serve(ctx, sdir, f"kill{j}", dr, np)
            tracer = None
            try:
                tracer = subprocess.Popen(["strace", "-f", "-p", str(s.pid), "-o", "/dev/null", "-e", "trace=" + cd.KILL_SYSCALLS,
                                           "-e", f"inject={cd.KILL_SYSCALLS}:signal=KILL:when={n}"],
                                          stdout=subprocess.DEVNULL, stderr=subprocess.DEVNULL)
                t0 = time.time()
                while time.time() - t0 < 10:
                    try:
                        if any(l.startswith("TracerPid:") and l.split()[1] != "0" for l in open(f"/proc/{s.pid}/status")):
                            break
                    except OSError:
                        break
                    time.sleep(0.01)
                time.sleep(0.1)
                code = cd.do_op(ctx.world, s, reg, sc["op"])
                t1 = time.time()
                while code == 0 and s.alive() and time.time() - t1 < 3:
                    time.sleep(0.02)
                died = not s.alive()
            finally:
                s.kill()
                if tracer:
                    try:
                        tracer.wait(timeout=10)
                    except subprocess.TimeoutExpired:
                        tracer.kill()
            c = cd.disk_canon(dr)
            is_prefix = c in canon_of
            matched += is_prefix
            if died and c not in seen:
                seen[c] = True
                out = restart_redo(ctx, sc, sdir, reg, dr, f"kill{j}")
                recs.append({"ev": "state", "t": sc["id"], "k": 1000 + j, "kn": 0, "eff": f"sigkill-when-{n}", "src": "kill", **out})
            recs.append({"ev": "kill", "t": sc["id"], "n": n, "died": died, "code": code, "is_prefix_state": is_prefix})
            shutil.rmtree(dr, ignore_errors=True)
    finally:
        reg.kill()
        shutil.rmtree(sdir, ignore_errors=True)
    return recs


def run_big_scenario(ctx, sc, whens):
    """a layer that is downloaded in two parts (> 100 MB), part files kept across the restart.  The effect trace is taken with
    short strings (the log must not hold the data) and only its beginning is used: every prefix of the effects up to the first
    one on the data file, i.e. the crash points inside blobDownload.Prepare while it creates its part files.  A few real
    SIGKILLs (before the N-th openat of a thread) are added."""
    sdir = os.path.join(ctx.wd, f"s{sc['id']}")
    os.makedirs(sdir)
    np = bool(sc.get("noprune"))
    reg = cd.Proc(ctx.binary, "registry", sdir, "reg")
    recs = []
    try:
        d0 = os.path.join(sdir, "d0")
        os.makedirs(d0)
        pre = cd.project_disk(ctx.world, d0)
        dt = os.path.join(sdir, "dt")
        os.makedirs(dt)
        log = os.path.join(sdir, "strace.log")
        s = serve(ctx, sdir, "traced", dt, np, strace_log=log, strsize="600")
        try:
            s.request("HEAD", "/api/blobs/sha256:" + cd.MARK_A)
            code = cd.do_op(ctx.world, s, reg, sc["op"])
        finally:
            s.kill()
        if code != 200:
            raise vf.Inconclusive(f"scenario {sc['id']}: the uninterrupted operation failed with {code}")
        model = cd.FsModel.load(d0)
        base = model.clone()
        effects, marks = cd.parse_strace(log, dt, model, ctx.world)
        os.remove(log)
        if "a" not in marks:
            raise vf.Inconclusive(f"scenario {sc['id']}: marker not found in the strace log")
        ref = restart_redo_ref(ctx, sc, sdir, reg, dt)
        shutil.rmtree(dt, ignore_errors=True)
        opn = {k: sc["op"].get(k, "") for k in ("op", "n", "m", "g", "s", "v")}
        recs.append({"ev": "scenario", "t": sc["id"], "op": opn, "prior": sc["prior"], "noprune": np, "involved": cd.involved(sc["op"]),
                     "pre": pre, "ref": ref, "effects": [], "nmain": 0, "labels": [], "big": True})
        cur, seen = base, set()
        for i, e in enumerate(effects):
            if i >= marks["a"] and e["rec"]["o"] in ("partial", "blob"):
                break                                   # the data starts here
            e["fn"](cur)
            if i < marks["a"]:
                continue
            c = cur.canon()
            if c in seen:
                continue
            seen.add(c)
            dk = os.path.join(sdir, f"k{i}")
            cur.materialise(dk)
            out = restart_redo(ctx, sc, sdir, reg, dk, f"k{i}")
            recs.append({"ev": "state", "t": sc["id"], "k": i + 1, "kn": 0, "eff": e["abs"], "src": "prefix", **out})
            shutil.rmtree(dk, ignore_errors=True)
        for j, n in enumerate(whens):
            dr = os.path.join(sdir, f"kill{j}")
            os.makedirs(dr)
            s = serve(ctx, sdir, f"kill{j}", dr, np)
            tracer = None
            try:
                tracer = subprocess.Popen(["strace", "-f", "-p", str(s.pid), "-o", "/dev/null", "-e", "trace=openat",
                                           "-e", f"inject=openat:signal=KILL:when={n}"],
                                          stdout=subprocess.DEVNULL, stderr=subprocess.DEVNULL)
                t0 = time.time()
                while time.time() - t0 < 10:
                    try:
                        if any(l.startswith("TracerPid:") and l.split()[1] != "0" for l in open(f"/proc/{s.pid}/status")):
                            break
                    except OSError:
                        break
                    time.sleep(0.01)
                time.sleep(0.1)
                code = cd.do_op(ctx.world, s, reg, sc["op"])
                t1 = time.time()
                while code == 0 and s.alive() and time.time() - t1 < 3:
                    time.sleep(0.02)
                died = not s.alive()
            finally:
                s.kill()
                if tracer:
                    try:
                        tracer.wait(timeout=10)
                    except subprocess.TimeoutExpired:
                        tracer.kill()
            files = sorted(os.listdir(os.path.join(dr, "blobs"))) if os.path.isdir(os.path.join(dr, "blobs")) else []
            if died:
                out = restart_redo(ctx, sc, sdir, reg, dr, f"kill{j}")
                recs.append({"ev": "state", "t": sc["id"], "k": 1000 + j, "kn": 0, "eff": f"sigkill-when-{n} leaving {[f[-12:] for f in files]}",
                             "src": "kill", **out})
            recs.append({"ev": "kill", "t": sc["id"], "n": n, "died": died, "code": code, "is_prefix_state": False})
            shutil.rmtree(dr, ignore_errors=True)
    finally:
        reg.kill()
        shutil.rmtree(sdir, ignore_errors=True)
    return recs


def restart_redo_ref(ctx, sc, sdir, reg, dt):
    s = serve(ctx, sdir, "ref", dt, bool(sc.get("noprune")))
    try:
        api = cd.project_api(ctx.world, s, reg.port)
        disk = cd.project_disk(ctx.world, dt)
    finally:
        s.kill()
    return {**disk, **api}


def run(tier="quick", seed=1, replay=None):
    t0 = time.time()
    res = vf.Result(PROP)
    quick = tier == "quick"
    cov = dict(states=0, transitions=0, traces_validated_against_impl=0, samples=[], evaluations=0, distinct_nontrivial=0)
    with vf.scratch("vf-c12-") as wd:
        ctx = Ctx()
        ctx.wd = wd
        ctx.binary = vf.go_test_binary("./server", os.path.join(wd, "server.test"), wd, ["server"])
        assets = os.path.join(wd, "assets")
        os.makedirs(assets)
        p = subprocess.run([ctx.binary, "-test.run", "^TestVFCrashAssets$"], env={**os.environ, "VF_ASSET_DIR": assets},
                           stdout=subprocess.PIPE, stderr=subprocess.STDOUT, cwd=wd)
        if p.returncode != 0:
            raise vf.Inconclusive("asset child failed: " + p.stdout.decode(errors="replace")[-800:])
        ctx.world = cd.World(wd, ctx.binary, assets)
        MC = ("INIT Init\nNEXT Next\nINVARIANT IntactAlways\nINVARIANT BystandersUnchanged\nINVARIANT RedoSucceeds\n"
              "INVARIANT RedoConverges\nINVARIANT RestartCleans\nCHECK_DEADLOCK FALSE\n")
        BASE = {"Names": '{"a", "b"}', "MaxPrior": 2 if quick else 3, "Variant": '"asis"', "BigBlobs": '{"G2"}', "TornPartFix": "TRUE"}
        if not replay:
            # with startup pruning the code as it is satisfies every invariant; without it (part files survive the restart) the
            # design that knows the layer's size does, and the code as it is shows the known finding (RedoSucceeds) at design level
            for name, extra, expect in (("prune", {"NoPrune": "FALSE", "KnowsLayerSize": "FALSE"}, None),
                                        ("noprune_repaired", {"NoPrune": "TRUE", "KnowsLayerSize": "TRUE"}, None),
                                        ("noprune_asis", {"NoPrune": "TRUE", "KnowsLayerSize": "FALSE", "MaxPrior": 2}, "RedoSucceeds")):
                cfg = vf.write_cfg(wd, f"MC_Crash_{name}.cfg", {**BASE, **extra}, MC)
                r = vf.tlc("Crash", cfg, wd, timeout=3000)
                if expect is None:
                    vf.tlc_must_pass(r, f"Crash.tla invariants ({name})")
                    cov["states"] += r["distinct"]
                    cov["transitions"] += r["generated"]
                elif f"Invariant {expect} is violated" not in r["out"]:
                    raise vf.Inconclusive(f"Crash.tla ({name}) no longer shows the design-level counterexample of the known finding:\n" + r["out"][-1200:])
            # non-vacuity of the design-level invariants: each ordering mistake the property is about violates one of them
            cov["design_variants_rejected"] = {}
            for var, inv in (() if quick else (("manifest-first", "IntactAlways"), ("delete-layers-first", "IntactAlways"), ("hardlink-copy", "BystandersUnchanged"),
                                               ("torn-part-file-not-handled", "RedoSucceeds"))):
                k = {**BASE, "NoPrune": "FALSE", "KnowsLayerSize": "FALSE", "MaxPrior": 2, "Variant": f'"{var}"'}
                if var == "torn-part-file-not-handled":      # the pinned code (before fix 4fe4b9592), part files kept
                    k.update({"Variant": '"asis"', "NoPrune": "TRUE", "TornPartFix": "FALSE", "KnowsLayerSize": "TRUE"})
                cfg = vf.write_cfg(wd, f"MC_Crash_{var}.cfg", k, MC)
                r = vf.tlc("Crash", cfg, wd, timeout=3000)
                if f"Invariant {inv} is violated" not in r["out"]:
                    raise vf.Inconclusive(f"Crash.tla variant {var} is no longer rejected by {inv}:\n" + r["out"][-1200:])
                cov["design_variants_rejected"][var] = inv
        if replay:
            scs = [json.loads(l) for l in open(replay) if l.strip()]
        else:
            scs = [s for s in SCENARIOS if not quick or s["id"] in QUICK_IDS]
            scs += [w for w in vf.load_witnesses(PROP) if not quick or w["id"] == 900002]
            scs += BIG_SCENARIOS
        kills = 3 if quick else 12
        recs = []
        with cf.ThreadPoolExecutor(max_workers=8 if quick else 14) as ex:
            futs = {ex.submit(run_scenario, ctx, sc, kills, seed): sc for sc in scs if not sc.get("big")}
            for sc in scs:
                if sc.get("big"):
                    futs[ex.submit(run_big_scenario, ctx, sc, [4, 6, 9])] = sc
            for f in cf.as_completed(futs):
                recs += f.result()
        recs.sort(key=lambda r: (r["t"], {"scenario": 0, "state": 1, "kill": 2}[r["ev"]], r.get("k", 0)))
        trace = os.path.join(wd, "trace.ndjson")
        with open(trace, "w") as f:
            for r in recs:
                f.write(json.dumps(r) + "\n")
        if os.environ.get("VF_KEEP_TRACE"):
            shutil.copy(trace, os.environ["VF_KEEP_TRACE"])
        with open(os.path.join(wd, "Trace_Crash.cfg"), "w") as f:
            f.write('CONSTANTS Variant = "asis" BigBlobs = {} TornPartFix = TRUE KnowsLayerSize = FALSE\n' + vf.TRACE_CFG)
        vf.copy_specs(wd)
        v = vf.validate_trace("Trace_Crash", "Trace_Crash.cfg", trace, wd, timeout=3000)
        by_t = {s["id"]: s for s in scs}
        findings = {f["id"]: f for f in vf.load_findings(PROP)}
        kf_big = 0
        shown = {}
        for ln, tid, flags in v["bad"]:
            r = recs[ln - 1]
            if by_t[r["t"]].get("big") and flags == ["redo-failed"] and r.get("redo2") == 200 and "multipart-resume-with-incomplete-part-list" in findings:
                kf_big += 1
                continue
            key = (r["t"], tuple(flags))
            shown[key] = shown.get(key, 0) + 1
            if shown[key] > 1 or len(res.violations) >= 12:
                continue
            p = vf.save_replay(PROP, f"crash-{tier}-{seed}-s{r['t']}-k{r['k']}.ndjson", json.dumps(by_t[r["t"]]) + "\n")
            res.violation(f"{flags} in scenario {r['t']} (prior {json.dumps(by_t[r['t']]['prior'])}, operation {json.dumps(by_t[r['t']]['op'])}"
                          f"{', OLLAMA_NOPRUNE=1' if by_t[r['t']].get('noprune') else ''}) after {r['src']} crash state k={r['k']} ({r['eff']}): "
                          f"restart -> {json.dumps(r['r1'])[:300]} redo={r['redo']} -> {json.dumps(r['r2'])[:300]}", p)
        cov["violation_kinds"] = {f"s{k[0]}:" + ",".join(k[1]): n for k, n in shown.items()}
        if kf_big:
            res.known_finding(f"{findings['multipart-resume-with-incomplete-part-list']['what']} ({kf_big} kill points)")
        cov["known_finding_states"] = kf_big
        for ln, tid, flags in v["drift"][:6]:
            res.note(f"model drift {flags} at scenario {recs[ln - 1]['t']} {recs[ln - 1].get('eff', '')}")
        cov["model_drift_lines"] = len(v["drift"])
        states = [r for r in recs if r["ev"] == "state"]
        kl = [r for r in recs if r["ev"] == "kill"]
        cov["evaluations"] = len(states)
        cov["traces_validated_against_impl"] = len(scs)
        cov["crash_states_from_prefixes"] = sum(1 for r in states if r["src"] == "prefix")
        cov["crash_states_from_real_kills"] = sum(1 for r in states if r["src"] == "kill")
        cov["real_kills"] = {"attempted": len(kl), "died": sum(1 for r in kl if r["died"]),
                             "post_kill_store_equals_a_prefix_state": sum(1 for r in kl if r["is_prefix_state"])}
        cov["samples"] = [{k: v for k, v in r.items() if k not in ("pre", "ref")} for r in recs[:2]]
    vf.write_evidence(PROP, tier, seed, "model_checking", cov, time.time() - t0, violations=len(res.violations),
                      assumptions=["crash = SIGKILL of the server process (file-system effects of completed system calls persist in order); no power loss / page-cache loss",
                                   "small single-part blobs; fault-free registry",
                                   "ptrace/strace available in the sandbox"])
    return res.finish()

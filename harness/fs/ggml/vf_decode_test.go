package ggml

// /verif harness for C10: files described by specs/GgufMut.tla (a small valid GGUF with one or two
// fields driven to a value class, or truncated) are materialised and decoded by the real Decode in a
// child process that runs under an address-space limit, so that a panic, a runaway allocation or a
// hang is an observation instead of the end of the harness.  One NDJSON record per file goes to VF_OUT;
// specs/Trace_GgufDecode.tla judges them.

import (
	"bufio"
	"bytes"
	"encoding/binary"
	"encoding/json"
	"fmt"
	"os"
	"os/exec"
	"path/filepath"
	"runtime"
	"strconv"
	"strings"
	"sync"
	"testing"
	"time"
)

type vfMut struct {
	F string `json:"f"`
	V string `json:"v"`
}

type vfDecodeCase struct {
	Id   int     `json:"id"`
	Ver  int     `json:"ver"`
	BE   bool    `json:"be"`
	Muts []vfMut `json:"muts"`
	Max  int     `json:"max"` // maxArraySize handed to Decode (0 default, -1 collect everything)
	Big  bool    `json:"big"` // token array of 1100 strings (not collected with the default limit)
}

type vfGgufWriter struct {
	buf   bytes.Buffer
	bo    binary.ByteOrder
	ver   int
	muts  map[string]string
	marks map[string]int // named positions for truncation
	total int            // length of the unmutated file (for rem+1)
	data  int            // where the tensor data of the unmutated file starts (for wrap-to-0 / wrap-to-8)
}

func vfPow(s string) (uint64, bool) {
	switch s {
	case "2^16":
		return 1 << 16, true
	case "2^31":
		return 1 << 31, true
	case "2^32":
		return 1 << 32, true
	case "2^32-1":
		return 1<<32 - 1, true
	case "2^63-1":
		return 1<<63 - 1, true
	case "2^63":
		return 1 << 63, true
	case "2^64-1":
		return ^uint64(0), true
	}
	return 0, false
}

// the value a (possibly mutated) numeric field takes
func (w *vfGgufWriter) val(field string, exact uint64) uint64 {
	v, ok := w.muts[field]
	if !ok {
		return exact
	}
	if p, ok := vfPow(v); ok {
		return p
	}
	switch v {
	case "exact+1":
		return exact + 1
	case "rem+1":
		return uint64(max(w.total-w.buf.Len(), 0)) + 1
	case "wrap-to-0", "wrap-to-8":
		// element count of the second tensor (2-byte elements) that makes "skip Size() bytes" land on byte 0 / 8 of the
		// file: the first tensor's 24 bytes are padded to 32, so the skip starts at data+32 and 2*n = 2^64 - (data+32) (+ 8)
		n := (^uint64(0) - uint64(w.data+32) + 1) / 2
		if v == "wrap-to-8" {
			n += 4
		}
		return n
	}
	n, _ := strconv.ParseUint(v, 10, 64)
	return n
}

func (w *vfGgufWriter) u32(field string, exact uint32) {
	binary.Write(&w.buf, w.bo, uint32(w.val(field, uint64(exact))))
}
func (w *vfGgufWriter) u64(field string, exact uint64) { binary.Write(&w.buf, w.bo, w.val(field, exact)) }

// counts are 32 bit in version 1
func (w *vfGgufWriter) count(field string, exact uint64) {
	if w.ver == 1 {
		w.u32(field, uint32(exact))
	} else {
		w.u64(field, exact)
	}
}

func (w *vfGgufWriter) str(field, s string) {
	if w.ver == 1 {
		s += "\x00" // version 1 strings are null terminated and the length counts the terminator
	}
	w.u64(field, uint64(len(s)))
	w.buf.WriteString(s)
}

func vfBuildGguf(c vfDecodeCase, total, data int) ([]byte, map[string]int) {
	w := &vfGgufWriter{ver: c.Ver, muts: map[string]string{}, marks: map[string]int{}, total: total, data: data}
	w.bo = binary.LittleEndian
	if c.BE {
		w.bo = binary.BigEndian
	}
	for _, m := range c.Muts {
		w.muts[m.F] = m.V
	}
	mark := func(n string) { w.marks[n] = w.buf.Len() }
	binary.Write(&w.buf, w.bo, uint32(0x46554747)) // "GGUF" in the file's byte order
	binary.Write(&w.buf, w.bo, uint32(c.Ver))
	mark("hdr")
	w.count("hdr_ntensors", 2)
	w.count("hdr_nkv", 4)
	// kv0: general.architecture = "llama"
	mark("kv0.key")
	w.str("kv0_keylen", "general.architecture")
	w.u32("kv0_type", 8)
	mark("kv0.val")
	w.str("kv0_strlen", "llama")
	// kv1: tokenizer.ggml.tokens = ["a", "bb"]
	w.str("kv1_keylen", "tokenizer.ggml.tokens")
	w.u32("kv1_type", 9)
	mark("kv1.arr")
	w.u32("kv1_arrtype", 8)
	if c.Big {
		w.count("kv1_arrcount", 1100)
		w.str("kv1_s0len", "a")
		for i := 1; i < 1100; i++ {
			if i == 600 {
				mark("kv1.mid") // just before the length of an element
				w.marks["kv1.mid+3"] = w.buf.Len() + 8 + 3
			}
			w.str("", fmt.Sprintf("token%04d", i))
		}
	} else {
		w.count("kv1_arrcount", 2)
		w.str("kv1_s0len", "a")
		w.str("", "bb")
	}
	// kv2: general.alignment = uint32(32)
	mark("kv2")
	w.str("kv2_keylen", "general.alignment")
	w.u32("kv2_type", 4)
	if t, ok := w.muts["kv2_type"]; ok && t == "8" { // the alignment given as a string
		w.str("", "32")
	} else {
		w.u32("kv2_value", 32)
	}
	// kv3: general.parameter_count = uint64(7); when its type is mutated the value is written in that type,
	// so the file stays well formed and declares the count as uint32 / string / int64 / float64
	w.str("", "general.parameter_count")
	w.u32("kv3_type", 10)
	switch w.muts["kv3_type"] {
	case "4":
		binary.Write(&w.buf, w.bo, uint32(7))
	case "8":
		w.str("", "7")
	case "11":
		binary.Write(&w.buf, w.bo, int64(7))
	case "12":
		binary.Write(&w.buf, w.bo, float64(7))
	default:
		binary.Write(&w.buf, w.bo, uint64(7))
	}
	// tensor infos
	mark("t0.name")
	w.str("t0_namelen", "blk.0.w")
	w.u32("t0_dims", 2)
	mark("t0.shape")
	w.u64("t0_shape0", 2)
	w.u64("", 3)
	w.u32("t0_kind", 0)
	w.u64("t0_offset", 0)
	mark("t1")
	w.str("t1_namelen", "output.weight")
	w.u32("t1_dims", 1)
	w.u64("t1_shape0", 4)
	w.u32("t1_kind", 1)
	w.u64("t1_offset", 32)
	mark("pad")
	for w.buf.Len()%32 != 0 {
		w.buf.WriteByte(0)
	}
	mark("data")
	w.buf.Write(bytes.Repeat([]byte{7}, 24))
	w.buf.Write(make([]byte, 8))
	w.buf.Write(bytes.Repeat([]byte{9}, 8))
	out := w.buf.Bytes()
	w.marks["data-1"] = len(out) - 1
	if cut, ok := w.muts["cut"]; ok {
		if at, ok := w.marks[cut]; ok && at < len(out) {
			out = out[:at]
		}
	}
	return out, w.marks
}

func vfMaterialise(c vfDecodeCase) []byte {
	base, marks := vfBuildGguf(vfDecodeCase{Ver: c.Ver, BE: c.BE, Big: c.Big}, 0, 0)
	out, _ := vfBuildGguf(c, len(base), marks["data"])
	return out
}

// ---------------------------------------------------------------- child: decodes files named on stdin
func TestVFDecodeChild(t *testing.T) {
	if os.Getenv("VF_DECODE_CHILD") == "" {
		t.Skip()
	}
	sc := bufio.NewScanner(os.Stdin)
	out := bufio.NewWriter(os.Stdout)
	for sc.Scan() {
		parts := strings.Fields(sc.Text()) // id path maxArraySize
		if len(parts) != 3 {
			continue
		}
		maxArr, _ := strconv.Atoi(parts[2])
		fmt.Fprintf(out, "VFSTART %s\n", parts[0])
		out.Flush()
		var before, after runtime.MemStats
		runtime.ReadMemStats(&before)
		t0 := time.Now()
		watchdog := time.AfterFunc(4*time.Second, func() { // a decode that takes this long does not terminate for our purposes
			fmt.Fprintf(os.Stderr, "VFWATCHDOG %s\n", parts[0])
			os.Exit(97)
		})
		outcome, msg := "decoded", ""
		func() {
			defer func() {
				if r := recover(); r != nil {
					outcome, msg = "panic", fmt.Sprint(r)
				}
			}()
			f, err := os.Open(parts[1])
			if err != nil {
				outcome, msg = "error", err.Error()
				return
			}
			defer f.Close()
			m, _, err := Decode(f, maxArr)
			if err != nil {
				outcome, msg = "error", err.Error()
				return
			}
			// what the server does next with a decoded file
			_ = m.KV().Architecture()
			_ = m.Tensors().GroupLayers()
			for _, tt := range m.Tensors().Items() {
				_ = tt.Size()
			}
		}()
		watchdog.Stop()
		runtime.ReadMemStats(&after)
		js, _ := json.Marshal(map[string]any{"id": parts[0], "outcome": outcome, "msg": msg, "alloc": after.TotalAlloc - before.TotalAlloc,
			"ms": time.Since(t0).Milliseconds()})
		fmt.Fprintf(out, "VFDONE %s\n", js)
		out.Flush()
	}
	os.Exit(0)
}

func TestVFDecodeReplay(t *testing.T) {
	inPath, outPath := os.Getenv("VF_IN"), os.Getenv("VF_OUT")
	if inPath == "" || outPath == "" {
		t.Skip("VF_IN / VF_OUT not set")
	}
	in, err := os.Open(inPath)
	if err != nil {
		t.Fatal(err)
	}
	defer in.Close()
	outf, err := os.Create(outPath)
	if err != nil {
		t.Fatal(err)
	}
	defer outf.Close()
	w := bufio.NewWriterSize(outf, 1<<20)
	defer w.Flush()
	enc := json.NewEncoder(w)
	dir := t.TempDir()
	sc := bufio.NewScanner(in)
	sc.Buffer(make([]byte, 1<<20), 1<<26)
	var cases []vfDecodeCase
	for sc.Scan() {
		var c vfDecodeCase
		if err := json.Unmarshal(sc.Bytes(), &c); err != nil {
			t.Fatalf("bad case: %v", err)
		}
		cases = append(cases, c)
	}
	exe, _ := os.Executable()
	recs := make([]map[string]any, len(cases))
	lens := make([]int, len(cases))
	for i, c := range cases {
		data := vfMaterialise(c)
		lens[i] = len(data)
		os.WriteFile(filepath.Join(dir, fmt.Sprintf("f%d.gguf", i)), data, 0o644)
		if keep := os.Getenv("VF_KEEP_FILES"); keep != "" && c.Max == 0 && !c.BE && c.Ver == 3 {
			os.WriteFile(filepath.Join(keep, fmt.Sprintf("%d.gguf", c.Id)), data, 0o644) // for the API harness
		}
	}
	workers := 12
	var wg sync.WaitGroup
	for wk := 0; wk < workers; wk++ {
		wg.Add(1)
		go func(wk int) {
			defer wg.Done()
			var todo []int
			for i := wk; i < len(cases); i += workers {
				todo = append(todo, i)
			}
			for len(todo) > 0 {
				// one child decodes as many files as it survives
				cmd := exec.Command("sh", "-c", "ulimit -v 3000000; exec \"$0\" -test.run '^TestVFDecodeChild$'", exe)
				cmd.Env = append(os.Environ(), "VF_DECODE_CHILD=1", "VF_IN=", "VF_OUT=", "GOMAXPROCS=2")
				var stdin bytes.Buffer
				for _, i := range todo {
					fmt.Fprintf(&stdin, "%d %s %d\n", i, filepath.Join(dir, fmt.Sprintf("f%d.gguf", i)), cases[i].Max)
				}
				cmd.Stdin = &stdin
				var stdout, stderr bytes.Buffer
				cmd.Stdout, cmd.Stderr = &stdout, &stderr
				done := make(chan error, 1)
				cmd.Start()
				go func() { done <- cmd.Wait() }()
				timedOut := false
				select {
				case <-done:
				case <-time.After(time.Duration(20+len(todo)/20) * time.Second):
					cmd.Process.Kill()
					<-done
					timedOut = true
				}
				started := -1
				finished := map[int]bool{}
				for _, line := range strings.Split(stdout.String(), "\n") {
					if strings.HasPrefix(line, "VFSTART ") {
						started, _ = strconv.Atoi(strings.TrimPrefix(line, "VFSTART "))
					} else if strings.HasPrefix(line, "VFDONE ") {
						var r map[string]any
						if json.Unmarshal([]byte(strings.TrimPrefix(line, "VFDONE ")), &r) == nil {
							i, _ := strconv.Atoi(fmt.Sprint(r["id"]))
							r["ev"], r["id"], r["len"] = "decode", cases[i].Id, lens[i]
							recs[i] = r
							finished[i] = true
						}
					}
				}
				var rest []int
				for _, i := range todo {
					if !finished[i] {
						rest = append(rest, i)
					}
				}
				if len(rest) == len(todo) && started == -1 {
					// the child did not even start: not an observation about the decoder
					for _, i := range rest {
						recs[i] = map[string]any{"ev": "decode", "id": cases[i].Id, "outcome": "harness", "msg": stderr.String()[:min(stderr.Len(), 300)], "alloc": 0, "ms": 0, "len": lens[i]}
					}
					break
				}
				if started >= 0 && !finished[started] {
					outcome := "crash"
					es := stderr.String()
					switch {
					case timedOut || strings.Contains(es, "VFWATCHDOG"):
						outcome = "timeout"
					case strings.Contains(es, "out of memory") || strings.Contains(es, "cannot allocate"):
						outcome = "oom"
					}
					i := started
					recs[i] = map[string]any{"ev": "decode", "id": cases[i].Id, "outcome": outcome, "msg": es[:min(len(es), 300)], "alloc": 0, "ms": 0, "len": lens[i]}
					var r2 []int
					for _, x := range rest {
						if x != i {
							r2 = append(r2, x)
						}
					}
					rest = r2
				}
				todo = rest
			}
		}(wk)
	}
	wg.Wait()
	for i, r := range recs {
		if r == nil {
			r = map[string]any{"ev": "decode", "id": cases[i].Id, "outcome": "harness", "msg": "no record", "alloc": 0, "ms": 0, "len": lens[i]}
		}
		enc.Encode(r)
	}
	fmt.Printf("VF replayed=%d\n", len(cases))
}

---------------------------- MODULE MC_Tokenizer ----------------------------
(* bounded instances of Tokenizer.tla: cfg files bind V and Units to the toy   *)
(* vocabularies of TokVocab.tla                                                *)
EXTENDS Tokenizer, TokVocab
VocabJson == PrintT(ToJson([vocab |-> V, units |-> Units]))
ASSUME VocabJson
===============================================================================

-------------------------------- MODULE KvRef --------------------------------
(* C06 -- the property itself as a state machine.                             *)
(*                                                                            *)
(* The KV cache, seen through kvcache.Cache, is a set of stored entries       *)
(*   [id, pos, seqs, ev]                                                      *)
(* id   : which K/V data was stored (one fresh id per stored token)           *)
(* pos  : the entry's current position (Remove of a middle range shifts it)   *)
(* seqs : the sequences that can currently see the entry                      *)
(* ev   : sequences for which the entry was dropped by the sliding window     *)
(*        (kept only to state that a legitimate caller never misses one)      *)
(*                                                                            *)
(* Actions are the calls of the interface: StartForward(batch)+Put,           *)
(* CopyPrefix, Remove (suffix / middle), CanResume.  `hist` records the       *)
(* behaviour so that TLC can hand it to the replay harness.                   *)
EXTENDS Integers, Sequences, FiniteSets, TLC, Json

CONSTANTS SeqIds,      \* sequence ids, e.g. {0, 1}
          Cells,       \* number of cache cells (after Init's rounding)
          MaxBatch,    \* largest batch generated
          MaxOps,      \* history length
          Window,      \* sliding window size; 0 = plain causal cache
          CanShift,    \* TRUE iff the cache was given a shift function
          Overfull,    \* TRUE: also generate batches that cannot fit (expect ErrKvCacheFull)
          CodeAsIs     \* TRUE: CanResume as the pinned code computed it (known defect, see below)

VARIABLES ref, nextId, hist
vars == <<ref, nextId, hist>>

Inf == 1000000
W == IF Window = 0 THEN Inf ELSE Window

Init == ref = {} /\ nextId = 1 /\ hist = <<>>

Of(r, s) == {e \in r : s \in e.seqs}
Live(r) == {e \in r : e.seqs # {}}
MaxPos(r, s) == LET ps == {e.pos : e \in Of(r, s)} IN
                IF ps = {} THEN -1 ELSE CHOOSE p \in ps : \A o \in ps : o <= p
SLen(r, s) == MaxPos(r, s) + 1

\* ---- what a token of sequence s at position p must be shown (the property)
Visible(r, s, p) == {e \in r : s \in e.seqs /\ e.pos <= p /\ e.pos >= p - W}
\* entries the caller would need but the window already dropped
Missing(r, s, p) == {e \in r : s \in e.ev /\ e.pos <= p /\ e.pos >= p - W}

\* ---- CanResume as kvcache.Causal computes it.  The pinned code compared window starts only
\* (CanResume_WindowStartOnly): that assumes everything from the start of the newest entry's
\* window is still stored, which is false once the sequence has been truncated (Remove of a
\* suffix, CopyPrefix) since its last batch.  The repaired code also looks for the entries.
Max0(a) == IF a > 0 THEN a ELSE 0
CanResume_WindowStartOnly(r, s, p) ==
  IF Window = 0 THEN TRUE
  ELSE IF Of(r, s) = {} THEN FALSE
  ELSE Max0(p - W) >= Max0(MaxPos(r, s) - W)
CanResumeF(r, s, p) ==
  /\ CanResume_WindowStartOnly(r, s, p)
  /\ (CodeAsIs \/ Window = 0 \/ \A q \in Max0(p - W)..(p - 1) : \E e \in Of(r, s) : e.pos = q)

\* ---- positions of the tokens of a batch (a sequence of sequence ids)
CountBefore(b, i) == Cardinality({j \in 1..(i-1) : b[j] = b[i]})
PosOf(r, b, i) == SLen(r, b[i]) + CountBefore(b, i)
BatchSeqs(b) == {b[i] : i \in DOMAIN b}

\* sliding window: before storing, entries of a batch sequence that lie before
\* (lowest position of that sequence in the batch) - W are dropped
Evict(r, b) ==
  IF Window = 0 THEN r
  ELSE {[e EXCEPT !.seqs = {s \in e.seqs : ~(s \in BatchSeqs(b) /\ e.pos < SLen(r, s) - W)},
                  !.ev   = e.ev \cup {s \in e.seqs : s \in BatchSeqs(b) /\ e.pos < SLen(r, s) - W}]
        : e \in r}

Batches == UNION {[1..n -> SeqIds] : n \in 1..MaxBatch}

Fwd(b) ==
  /\ LET r0   == Evict(ref, b)
         n    == Len(b)
         fits == Cardinality(Live(r0)) + n <= Cells
     IN /\ fits \/ Overfull
        /\ IF fits
             THEN /\ ref' = r0 \cup {[id |-> nextId + i - 1, pos |-> PosOf(ref, b, i),
                                      seqs |-> {b[i]}, ev |-> {}] : i \in 1..n}
                  /\ nextId' = nextId + n
             ELSE /\ ref' = r0 /\ UNCHANGED nextId
        /\ hist' = Append(hist, [ev |-> "fwd", batch |-> b,
                                 pos |-> [i \in 1..n |-> PosOf(ref, b, i)],
                                 id0 |-> nextId, full |-> ~fits])

CopyRef(r, src, dst, n) ==
  {[e EXCEPT !.seqs = IF src \in e.seqs /\ e.pos < n THEN e.seqs \cup {dst} ELSE e.seqs \ {dst},
             !.ev   = IF src \in e.ev /\ e.pos < n THEN e.ev \cup {dst} ELSE e.ev \ {dst}] : e \in r}

RmTailRef(r, s, b) == {[e EXCEPT !.seqs = IF e.pos >= b THEN @ \ {s} ELSE @,
                                 !.ev = IF e.pos >= b THEN @ \ {s} ELSE @] : e \in r}

\* a caller forks a prefix and continues from there only if CanResume allows it; otherwise
\* it erases the destination (this is what the runner's LoadCacheSlot does)
Copy(src, dst, n) ==
  /\ src # dst /\ n \in 1..SLen(ref, src)
  /\ LET r1 == CopyRef(ref, src, dst, n) IN
       ref' = IF CanResumeF(r1, dst, n) THEN r1 ELSE RmTailRef(r1, dst, 0)
  /\ hist' = Append(hist, [ev |-> "copy", src |-> src, dst |-> dst, n |-> n])
  /\ UNCHANGED nextId

\* Remove(s, b, MaxInt32), after asking CanResume(s, b); erase everything if it says no
RmTail(s, b) ==
  /\ b \in 0..MaxPos(ref, s)
  /\ ref' = IF b = 0 \/ CanResumeF(ref, s, b) THEN RmTailRef(ref, s, b) ELSE RmTailRef(ref, s, 0)
  /\ hist' = Append(hist, [ev |-> "rmtail", s |-> s, b |-> b])
  /\ UNCHANGED nextId

\* Remove(s, b, e) with b < e: entries in [b, e) go, later ones move down by e - b.
\* Fails if a later entry is shared, or if the cache cannot shift while something of the
\* sequence remains; the caller then erases the whole sequence at once (as the runner does),
\* because a failed Remove leaves the sequence's own bookkeeping half-updated.
RmMid(s, b, e) ==
  /\ Window = 0
  /\ b \in 0..MaxPos(ref, s) /\ e \in (b+1)..SLen(ref, s)
  /\ LET shared == \E x \in Of(ref, s) : x.pos >= e /\ x.seqs # {s}
         remain == \E x \in Of(ref, s) : x.pos < b \/ x.pos >= e
         fail   == shared \/ (~CanShift /\ remain)
     IN /\ IF fail
             THEN ref' = RmTailRef(ref, s, 0)
             ELSE ref' = {IF s \notin x.seqs THEN x
                             ELSE IF x.pos >= b /\ x.pos < e THEN [x EXCEPT !.seqs = @ \ {s}]
                             ELSE IF x.pos >= e THEN [x EXCEPT !.pos = @ - (e - b)] ELSE x : x \in ref}
        /\ hist' = Append(hist, [ev |-> "rmmid", s |-> s, b |-> b, e |-> e, fail |-> fail])
  /\ UNCHANGED nextId

\* pure query, generated so that the real answer is recorded and judged
Query(s, p) ==
  /\ Window # 0 /\ p \in 0..(SLen(ref, s) + 1)
  /\ hist' = Append(hist, [ev |-> "canresume", s |-> s, p |-> p, want |-> CanResumeF(ref, s, p)])
  /\ UNCHANGED <<ref, nextId>>

Next ==
  /\ Len(hist) < MaxOps
  /\ \/ \E b \in Batches : Fwd(b)
     \/ \E s, t \in SeqIds, n \in 1..Cells : Copy(s, t, n)
     \/ \E s \in SeqIds, b \in 0..Cells : RmTail(s, b)
     \/ \E s \in SeqIds, b \in 0..Cells, e \in 1..Cells : RmMid(s, b, e)
     \/ \E s \in SeqIds, p \in 0..Cells : Query(s, p)

Spec == Init /\ [][Next]_vars

\* ---------------------------------------------------------------- design-level invariants
\* positions of one sequence are distinct and gap-free from its first stored position
DistinctPos == \A s \in SeqIds : \A a, c \in Of(ref, s) : a.pos = c.pos => a = c
\* live entries never exceed the capacity (a full cache refuses, it does not overwrite)
Bounded == Cardinality(Live(ref)) <= Cells
\* a caller that respects CanResume never misses an entry the window has dropped:
\* for the next position of every usable sequence nothing needed is in `ev`
NothingMissing ==
  \A s \in SeqIds : Of(ref, s) # {} => Missing(ref, s, SLen(ref, s)) = {}
\* CanResume as computed implies nothing needed has been dropped
ResumeSound ==
  \A s \in SeqIds : \A p \in 0..(SLen(ref, s)) :
     (Window # 0 /\ CanResumeF(ref, s, p) /\ p <= SLen(ref, s)) =>
        {e \in ref : s \in e.ev /\ e.pos < p /\ e.pos >= p - W} = {}
\* ids are stored once
IdsUnique == \A a, c \in ref : a.id = c.id => a = c

\* ---------------------------------------------------------------- generation
Emit == (Len(hist) = MaxOps) => PrintT(ToJson(hist))
View == <<ref, Len(hist)>>
==============================================================================

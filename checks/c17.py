"""C17 -- streaming, non-streaming and OpenAI-compatible responses carry the same result.

StreamCore.tla transcribes the aggregation of ChatHandler (streamed with tools / everything else) at
the level of pieces; Stream.tla enumerates (output, split into chunks) and TLC checks that the two
aggregations agree once the remainder after a parsed object is kept, and that the pinned reset loses
a call only in the situation named by the known finding.  Every enumerated case (x tools on/off x
failure point) goes through the real handlers in eight presentations; Trace_Stream.tla compares them.
"""
import json
import time

import vf

PROP = "C17"
MC_BODY = """
INIT Init
NEXT Next
INVARIANT Agree
CONSTRAINT Emit
CHECK_DEADLOCK FALSE
"""
KF_BODY = """
INIT Init
NEXT Next
INVARIANT ResetOnlyLosesAfterSplit
CHECK_DEADLOCK FALSE
"""


def run(tier="quick", seed=1, replay=None):
    t0 = time.time()
    res = vf.Result(PROP)
    quick = tier == "quick"
    cov = dict(states=0, transitions=0, traces_validated_against_impl=0, samples=[], evaluations=0,
               distinct_nontrivial=0)
    with vf.scratch("vf-c17-") as wd:
        if replay:
            cases = [json.loads(l) for l in open(replay) if l.strip()]
        else:
            c = {"MaxAtoms": 3, "MaxChunks": 3 if quick else 4, "KeepRest": "TRUE"}
            cfg = vf.write_cfg(wd, "MC_Stream.cfg", c, MC_BODY)
            vals, r = vf.gen_exhaustive("Stream", cfg, wd, timeout=3000)
            cov["states"], cov["transitions"] = r["distinct"], r["generated"]
            cfg = vf.write_cfg(wd, "KF_Stream.cfg", dict(c, KeepRest="FALSE"), KF_BODY)
            r2 = vf.tlc("Stream", cfg, wd, timeout=3000)
            vf.tlc_must_pass(r2, "Stream.tla: the pinned reset loses calls only after a split inside the next object")
            cov["exhaustive"] = True
            cov["bounds"] = f"outputs of <= 3 distinct atoms (2 tool-call objects of 3 pieces, 2 text runs), every split into <= {c['MaxChunks']} chunks"
            cases = []
            for i, v in enumerate(vf.dedupe(vals)):
                n = len(v["chunks"])
                for tools in (True, False):
                    cases.append(dict(atoms=v["atoms"], chunks=v["chunks"], tools=tools, fail=-1))
                if i % 3 == 0:      # the same output ending at the prediction limit instead of a stop
                    cases.append(dict(atoms=v["atoms"], chunks=v["chunks"], tools=True, fail=-1, reason="length"))
                    cases.append(dict(atoms=v["atoms"], chunks=v["chunks"], tools=False, fail=-1, reason="length"))
                if i % (7 if quick else 2) == 0:      # failure points: after k chunks
                    for k in range(0, n + 1):
                        cases.append(dict(atoms=v["atoms"], chunks=v["chunks"], tools=bool(k % 2), fail=k))
                    if "T1" in v["atoms"]:
                        cases.append(dict(atoms=v["atoms"], chunks=v["chunks"], tools=False, fail=-2))
            for i, c2 in enumerate(cases):
                c2["id"] = i + 1
            cases += vf.load_witnesses(PROP)
        recs, v, _ = vf.replay_and_validate(wd, cases, "./server", "TestVFStreamReplay", ["server"], "Trace_Stream",
                                            go_timeout=3000, tlc_timeout=3000)
        by_id = {str(c["id"]): c for c in cases}
        cov["traces_validated_against_impl"] = len(recs)
        cov["evaluations"] = sum(len(r["obs"]) for r in recs)
        cov["distinct_nontrivial"] = len({json.dumps([r["chunks"], r["tools"], r["fail"]]) for r in recs if len(r["chunks"]) > 1})
        cov["rule"] = ("case = (output, split into chunks, tools on/off, failure point), each requested in 4-8 presentations; "
                       "non-trivial = the output arrives in more than one chunk; distinct by value")
        cov["samples"] = recs[:1] + recs[len(recs) // 2:len(recs) // 2 + 1]
        known = vf.load_findings(PROP)
        shown = {}
        for ln, cid, flags in v["bad"]:
            fl = set(flags)
            k = next((k for k in known if set(k["flags"]) >= fl and set(k["requires"]) <= fl), None)
            if k is not None:
                res.known_finding(k["what"])
                continue
            key = tuple(flags)
            shown[key] = shown.get(key, 0) + 1
            if shown[key] > 2 or len(res.violations) >= 8:
                continue
            p = vf.save_replay(PROP, f"stream-{tier}-{seed}-{cid}.ndjson", json.dumps(by_id.get(cid)) + "\n")
            res.violation(f"{flags}: {json.dumps(recs[ln - 1])[:700]}", p)
        cov["violation_kinds"] = {",".join(k): n for k, n in shown.items()}
        cov["drift_cases"] = len(v["drift"])
        if v["drift"]:
            res.note(f"drift: {len(v['drift'])} cases differ from StreamCore's prediction without breaking C17")
        cov["checker_cmd"] = "tlc Stream.tla (Agree with KeepRest; ResetOnlyLosesAfterSplit) ; tlc Trace_Stream.tla"
    vf.write_evidence(PROP, tier, seed, "model_checking", cov, time.time() - t0, violations=len(res.violations),
                      assumptions=["mock runner replays the chunks; tool-call index fields and timestamps are not compared",
                                   "request shapes: chat with/without tools, generate, /v1/chat/completions, /v1/completions; format/raw/stop are passed through unchanged and not varied"])
    return res.finish()

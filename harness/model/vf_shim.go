package model

// /verif overlay-only shim (never written to /repo): model.Model cannot be implemented outside this
// package because Config() returns an unexported type, so a scripted model used by the harness of
// runner/ollamarunner embeds a Base built here.

import (
	"github.com/ollama/ollama/kvcache"
	"github.com/ollama/ollama/ml"
)

func NewBaseForVerif(b ml.Backend, cache kvcache.Cache) Base {
	return Base{b: b, config: config{Cache: cache}}
}

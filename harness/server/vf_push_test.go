//go:build verif

package server

// /verif harness for C09 (legacy push): fault scripts enumerated by TLC from specs/Push.tla are played by
// a scripted registry against the real PushModel (uploadBlob, blobUpload.Prepare / Run): HEAD, start,
// PATCH of the part, commit PUT, manifest PUT.  The registry records what it had accepted when the
// manifest PUT arrived; specs/Trace_Push.tla judges.  Every script pushes blobs of its own (the upload
// manager is keyed by digest), so the scripts run concurrently -- a request refused on all six tries
// costs 63 s of back-off.

import (
	"bufio"
	"bytes"
	"context"
	"crypto/sha256"
	"encoding/json"
	"fmt"
	"io"
	"net/http"
	"net/http/httptest"
	"os"
	"strings"
	"sync"
	"testing"
	"time"

	"github.com/ollama/ollama/api"
	"github.com/ollama/ollama/types/model"
)

type vfLFault struct {
	Slot string `json:"slot"` // head | start | part | commit | man
	B    int    `json:"b"`
	F    string `json:"f"`
}

type vfLScript struct {
	T      int        `json:"t"`
	Faults []vfLFault `json:"faults"`
}

func vfLegacyPushRun(sc vfLScript) map[string]any {
	fault := func(slot string, b int) string {
		for _, f := range sc.Faults {
			if f.Slot == slot && f.B == b {
				return f.F
			}
		}
		return "ok"
	}
	data := map[int][]byte{}
	idx := map[string]int{}
	var layers []Layer
	var config Layer
	for b := 1; b <= 3; b++ {
		data[b] = []byte(fmt.Sprintf("legacy blob %d of script %d ........", b, sc.T))
		mt := "application/vnd.ollama.image.license"
		if b == 3 {
			mt = "application/vnd.docker.container.image.v1+json"
		}
		l, err := NewLayer(bytes.NewReader(data[b]), mt)
		if err != nil {
			return map[string]any{"ev": "harness", "t": sc.T, "err": err.Error()}
		}
		idx[l.Digest] = b
		if b == 3 {
			config = l
		} else {
			layers = append(layers, l)
		}
	}
	var mu sync.Mutex
	accepted := map[int]bool{}
	received := map[int][]byte{}
	tries := map[string]int{}
	manPuts, okAtPut := 0, true
	var reqs []string
	var ts *httptest.Server
	ts = httptest.NewServer(http.HandlerFunc(func(w http.ResponseWriter, req *http.Request) {
		body, _ := io.ReadAll(req.Body)
		mu.Lock()
		defer mu.Unlock()
		reqs = append(reqs, req.Method+" "+req.URL.Path)
		refuse := func() { http.Error(w, `{"errors":[{"code":"UNAVAILABLE","message":"try later"}]}`, http.StatusServiceUnavailable) }
		// refused on the first try only / on every try
		retried := func(slot string, b int) bool {
			k := fmt.Sprintf("%s/%d", slot, b)
			tries[k]++
			f := fault(slot, b)
			return f == "failall" || (f == "fail1" && tries[k] == 1)
		}
		p := req.URL.Path
		switch {
		case req.Method == "HEAD" && strings.Contains(p, "/blobs/sha256"):
			b := idx[p[strings.LastIndex(p, "/")+1:]]
			switch fault("head", b) {
			case "5xx":
				refuse()
			case "exists":
				accepted[b] = true
				w.WriteHeader(http.StatusOK)
			default:
				w.WriteHeader(http.StatusNotFound)
			}
		case req.Method == "POST" && strings.HasSuffix(p, "/blobs/uploads/"):
			// the digest is not part of the request: uploads start in the order of the layers that needed one
			b := 0
			for x := 1; x <= 3; x++ {
				if _, started := received[x]; !started && !accepted[x] && fault("head", x) == "ok" {
					b = x
					break
				}
			}
			if fault("start", b) == "5xx" {
				refuse()
				return
			}
			received[b] = nil
			w.Header().Set("Location", fmt.Sprintf("%s/upload/%d", ts.URL, b))
			w.WriteHeader(http.StatusAccepted)
		case req.Method == "PATCH" && strings.HasPrefix(p, "/upload/"):
			var b int
			fmt.Sscanf(p, "/upload/%d", &b)
			if retried("part", b) {
				refuse()
				return
			}
			received[b] = append([]byte{}, body...)
			w.Header().Set("Location", fmt.Sprintf("%s/upload/%d", ts.URL, b))
			w.WriteHeader(http.StatusAccepted)
		case req.Method == "PUT" && strings.HasPrefix(p, "/upload/"):
			var b int
			fmt.Sscanf(p, "/upload/%d", &b)
			if retried("commit", b) {
				refuse()
				return
			}
			if fmt.Sprintf("sha256:%x", sha256.Sum256(received[b])) == req.URL.Query().Get("digest") && bytes.Equal(received[b], data[b]) {
				accepted[b] = true
			}
			w.WriteHeader(http.StatusCreated)
		case req.Method == "PUT" && strings.Contains(p, "/manifests/"):
			manPuts++
			okAtPut = okAtPut && accepted[1] && accepted[2] && accepted[3]
			if fault("man", 0) == "5xx" {
				refuse()
				return
			}
			w.WriteHeader(http.StatusCreated)
		default:
			http.NotFound(w, req)
		}
	}))
	defer ts.Close()
	host := strings.TrimPrefix(ts.URL, "http://")
	name := fmt.Sprintf("%s/lib/m%d:latest", host, sc.T)
	if err := WriteManifest(model.ParseName(name), config, layers); err != nil {
		return map[string]any{"ev": "harness", "t": sc.T, "err": "manifest: " + err.Error()}
	}
	ctx, cancel := context.WithTimeout(context.Background(), 200*time.Second)
	defer cancel()
	perr := PushModel(ctx, "http://"+name, &registryOptions{Insecure: true}, func(api.ProgressResponse) {})
	mu.Lock()
	defer mu.Unlock()
	e := ""
	if perr != nil {
		e = perr.Error()
		if len(e) > 160 {
			e = e[:160]
		}
	}
	acc := []int{}
	for b := 1; b <= 3; b++ {
		if accepted[b] {
			acc = append(acc, b)
		}
	}
	faults := sc.Faults
	if faults == nil {
		faults = []vfLFault{}
	}
	return map[string]any{"ev": "push", "impl": "legacy", "t": sc.T, "faults": faults, "err": e, "man_puts": manPuts, "all_accepted_at_put": okAtPut,
		"accepted": acc, "reqs": reqs}
}

func TestVFLegacyPushReplay(t *testing.T) {
	inPath, outPath := os.Getenv("VF_IN"), os.Getenv("VF_OUT")
	if inPath == "" || outPath == "" {
		t.Skip("VF_IN / VF_OUT not set")
	}
	t.Setenv("OLLAMA_MODELS", t.TempDir())
	in, err := os.Open(inPath)
	if err != nil {
		t.Fatal(err)
	}
	defer in.Close()
	var scripts []vfLScript
	sc := bufio.NewScanner(in)
	for sc.Scan() {
		var s vfLScript
		if err := json.Unmarshal(sc.Bytes(), &s); err != nil {
			t.Fatalf("bad script: %v", err)
		}
		scripts = append(scripts, s)
	}
	out := make([]map[string]any, len(scripts))
	var wg sync.WaitGroup
	for i := range scripts {
		wg.Add(1)
		go func() {
			defer wg.Done()
			out[i] = vfLegacyPushRun(scripts[i])
		}()
	}
	wg.Wait()
	f, err := os.Create(outPath)
	if err != nil {
		t.Fatal(err)
	}
	defer f.Close()
	enc := json.NewEncoder(f)
	for _, r := range out {
		enc.Encode(r)
	}
	fmt.Printf("VF replayed=%d\n", len(scripts))
}

---------------------------- MODULE Trace_BlobCache ----------------------------
(* C08 -- state-based validation of what the real blob.DiskCache left on disk   *)
(* after every step of a replayed writer schedule, after real kills of a        *)
(* writing process, and of the results of sequential Put/Link/Resolve/Get       *)
(* histories (harness/server/internal/cache/blob).                              *)
EXTENDS Integers, Sequences, FiniteSets, TLC, Json, IOUtils

VARIABLES l, nbad,
          size,      \* units of the blob of the current trace
          kindOf,    \* writer -> source kind (0 = not started)
          act,       \* writers in progress
          ov,        \* TRUE once a faulty-source writer and another writer were in progress together
          short,     \* writers whose Put returned at once because the file already had the right size
          started,   \* number of writers started
          links      \* api traces: folded name -> index of the linked manifest (0 = none)
vars == <<l, nbad, size, kindOf, act, ov, short, started, links>>
Trace == ndJsonDeserialize(IOEnv.VF_TRACE)
Good(n) == [i \in 1..n |-> i]

Init == /\ l = 1 /\ nbad = 0 /\ size = 0 /\ kindOf = <<>> /\ act = {} /\ ov = FALSE /\ short = {}
        /\ started = 0 /\ links = <<>>

Report(e, flags) ==
  /\ (flags # {}) => PrintT(<<"VFBAD", l, e.t, flags>>)
  /\ nbad' = IF flags # {} THEN nbad + 1 ELSE nbad

\* the file-state monitor, on every record that carries the file
FileFlags(e) ==
  IF e.len = size * e.unit /\ e.units # Good(size)
    THEN (IF ov THEN {"right-size-wrong-content", "with-concurrent-faulty-writer"} ELSE {"right-size-wrong-content"})
    ELSE {}

Reset(e) ==
  /\ size' = e.size /\ kindOf' = [w \in 1..e.writers |-> "none"] /\ act' = {} /\ ov' = FALSE /\ short' = {}
  /\ started' = 0 /\ links' = [n \in 1..e.names |-> 0]
  /\ nbad' = nbad

WStep(e) ==
  LET isStart == e.ev = "start"
      k2   == IF isStart THEN [kindOf EXCEPT ![e.w] = e.kind] ELSE kindOf
      act2 == IF isStart /\ e.ret = "none" THEN act \cup {e.w}
              ELSE IF e.ret # "none" \/ e.ev = "crash" THEN act \ {e.w} ELSE act
      \* overlap is judged while both are in progress (a crashed writer no longer acts)
      ov2  == ov \/ (isStart /\ act # {} /\ (e.kind # "good" \/ \E o \in act : kindOf[o] # "good"))
      sh2  == IF isStart /\ e.ret = "ok" THEN short \cup {e.w} ELSE short
      flags == (IF e.len = size * e.unit /\ e.units # Good(size)
                  THEN (IF ov2 THEN {"right-size-wrong-content", "with-concurrent-faulty-writer"} ELSE {"right-size-wrong-content"})
                  ELSE {})
          \cup (IF e.ret = "ok" /\ k2[e.w] # "good" /\ e.w \notin sh2 THEN {"faulty-source-reported-success"} ELSE {})
  IN /\ kindOf' = k2 /\ act' = act2 /\ ov' = ov2 /\ short' = sh2
     /\ started' = IF isStart THEN started + 1 ELSE started
     /\ Report(e, flags)
     /\ UNCHANGED <<size, links>>

End(e) ==
  /\ Report(e, FileFlags(e) \cup
               (IF started = 1 /\ e.lastret = "ok" /\ ~(e.get /\ e.getsize = size * e.unit) THEN {"put-ok-but-not-retrievable"} ELSE {}))
  /\ UNCHANGED <<size, kindOf, act, ov, short, started, links>>

\* a process killed while it was the only writer (strace kill injection)
\* e.after: the good content stored again (Import or Put) on what the killed writer left; a store that reports success
\* must leave the blob retrievable, complete and right
Kill(e) ==
  /\ Report(e, (IF e.len = e.size * e.unit /\ e.units # Good(e.size) THEN {"right-size-wrong-content", "after-kill"} ELSE {})
          \cup (IF e.after.op # "none" /\ e.after.err = "" /\ (~e.after.get \/ e.after.len # e.size * e.unit \/ e.after.units # Good(e.size))
                THEN {"store-after-crash-ok-but-blob-not-complete", "after-kill"} ELSE {})
          \cup (IF e.after.op # "none" /\ e.after.len = e.size * e.unit /\ e.after.units # Good(e.size)
                THEN {"right-size-wrong-content", "after-kill"} ELSE {}))
  /\ UNCHANGED <<size, kindOf, act, ov, short, started, links>>

\* sequential API histories over manifests m (index) and names n (index of the folded name)
Api(e) ==
  LET flags ==
        CASE e.op = "link" ->
               (IF e.err = "" /\ ~e.blobpresent THEN {"linked-to-missing-blob"} ELSE {})
          \cup (IF e.err = "" /\ e.resolved # e.m THEN {"link-ok-but-resolves-to-other-bytes"} ELSE {})
          [] e.op = "resolve" ->
               (IF e.err = "" /\ links[e.n] = 0 THEN {"resolved-unlinked-name"} ELSE {})
          \cup (IF e.err = "" /\ links[e.n] # 0 /\ e.resolved # links[e.n] THEN {"resolve-not-what-was-linked"} ELSE {})
          \cup (IF e.err = "" /\ ~e.filematches THEN {"resolve-digest-not-of-linked-bytes"} ELSE {})
          \cup (IF e.err # "" /\ links[e.n] # 0 THEN {"linked-name-does-not-resolve"} ELSE {})
          [] e.op = "put" ->
               (IF e.err = "" /\ e.sz > 0 /\ ~e.getok THEN {"put-ok-but-not-retrievable"} ELSE {})
          [] OTHER -> {}
  IN /\ links' = CASE e.op = "link" /\ e.err = "" -> [links EXCEPT ![e.n] = e.m]
                   [] e.op = "unlink" /\ e.err = "" -> [links EXCEPT ![e.n] = 0]
                   [] OTHER -> links
     /\ Report(e, flags)
     /\ UNCHANGED <<size, kindOf, act, ov, short, started>>

Step ==
  /\ l <= Len(Trace) /\ l' = l + 1
  /\ LET e == Trace[l] IN
       CASE e.ev = "reset" -> Reset(e)
         [] e.ev \in {"start", "deliver", "final", "crash"} -> WStep(e)
         [] e.ev = "end" -> End(e)
         [] e.ev = "kill" -> Kill(e)
         [] e.ev = "api" -> Api(e)
Spec == Init /\ [][Step]_vars
Accepted == TLCGet("stats").diameter = Len(Trace) + 1
===============================================================================

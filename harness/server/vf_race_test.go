//go:build verif

package server

// /verif harness for C15: concurrent API requests against one real Server (fixture in
// vf_fixture_test.go), built with -race; the scheduler gates add seeded random delays.  The race
// detector's reports, 5xx answers and the running-models lists (with logical timestamps) are the
// observations; checks/c15.py classifies the reports and specs/Trace_Ps.tla judges the lists.

import (
	"bufio"
	"encoding/json"
	"fmt"
	"math/rand"
	"os"
	"strconv"
	"strings"
	"sync"
	"testing"

	"github.com/ollama/ollama/api"
)

func TestVFRace(t *testing.T) {
	outPath := os.Getenv("VF_OUT")
	if outPath == "" {
		t.Skip("VF_OUT not set")
	}
	seed, _ := strconv.ParseInt(os.Getenv("VF_SEED"), 10, 64)
	if seed == 0 {
		seed = 1
	}
	ops, _ := strconv.Atoi(os.Getenv("VF_OPS"))
	if ops == 0 {
		ops = 60
	}
	rounds, _ := strconv.Atoi(os.Getenv("VF_ROUNDS"))
	if rounds == 0 {
		rounds = 2
	}
	t.Setenv("OLLAMA_MAX_LOADED_MODELS", "2")
	t.Setenv("OLLAMA_KEEP_ALIVE", "3ms")
	t.Setenv("OLLAMA_MAX_QUEUE", "64")
	t.Setenv("OLLAMA_NUM_PARALLEL", "1")
	out, err := os.Create(outPath)
	if err != nil {
		t.Fatal(err)
	}
	defer out.Close()
	w := bufio.NewWriterSize(out, 1<<20)
	defer w.Flush()
	enc := json.NewEncoder(w)
	total := 0
	for round := 0; round < rounds; round++ {
		v := vfNewSrv(seed*100 + int64(round) + 1)
		pathOf := sync.Map{} // model name -> blob path the runner is keyed by
		for i, m := range []string{"m1", "m2", "m3"} {
			if code, body := v.createModel(m, i, ""); code != 200 {
				t.Fatalf("create %s: %d %s", m, code, body)
			}
			mm, err := GetModel(m)
			if err != nil {
				t.Fatal(err)
			}
			pathOf.Store(m, mm.ModelPath)
		}
		var mu sync.Mutex
		var recs []map[string]any
		log := func(r map[string]any) { mu.Lock(); r["t"] = round; recs = append(recs, r); mu.Unlock() }
		var wg sync.WaitGroup
		workers := 8
		for wk := 0; wk < workers; wk++ {
			wg.Add(1)
			go func(wk int) {
				defer wg.Done()
				rng := rand.New(rand.NewSource(seed*1000 + int64(round*37+wk)))
				models := []string{"m1", "m2", "m3"}
				f := false
				for i := 0; i < ops; i++ {
					m := models[rng.Intn(3)]
					tmp := fmt.Sprintf("tmp%d", rng.Intn(3))
					var code int
					var body []byte
					op := rng.Intn(14)
					name := ""
					switch op {
					case 0, 1:
						name = "generate"
						code, body, _ = v.do("POST", "/api/generate", api.GenerateRequest{Model: m, Prompt: "hi", Stream: &f})
					case 2:
						name = "generate-stream"
						code, body, _ = v.do("POST", "/api/generate", api.GenerateRequest{Model: m, Prompt: "hi"})
					case 3:
						name = "chat"
						code, body, _ = v.do("POST", "/api/chat", api.ChatRequest{Model: m, Messages: []api.Message{{Role: "user", Content: "hi"}}, Stream: &f})
					case 4:
						name = "unload"
						code, body, _ = v.do("POST", "/api/generate", api.GenerateRequest{Model: m, KeepAlive: &api.Duration{Duration: 0}})
					case 5, 6, 7:
						name = "ps"
						b := v.tick()
						code, body, _ = v.do("GET", "/api/ps", nil)
						e := v.tick()
						var pr api.ProcessResponse
						paths := []string{}
						if json.Unmarshal(body, &pr) == nil {
							for _, x := range pr.Models {
								if p, ok := pathOf.Load(strings.TrimSuffix(x.Name, ":latest")); ok {
									paths = append(paths, p.(string))
								} else {
									paths = append(paths, "?"+x.Name)
								}
							}
						}
						log(map[string]any{"ev": "ps", "b": b, "e": e, "models": paths, "code": code})
					case 8:
						name = "tags"
						code, body, _ = v.do("GET", "/api/tags", nil)
					case 9:
						name = "show"
						code, body, _ = v.do("POST", "/api/show", api.ShowRequest{Model: m})
					case 10:
						name = "copy"
						code, body, _ = v.do("POST", "/api/copy", api.CopyRequest{Source: m, Destination: tmp})
						if code == 200 {
							if p, ok := pathOf.Load(m); ok {
								pathOf.Store(tmp, p)
							}
						}
					case 11:
						name = "delete"
						code, body, _ = v.do("DELETE", "/api/delete", api.DeleteRequest{Model: tmp})
					case 12:
						name = "embed"
						code, body, _ = v.do("POST", "/api/embed", api.EmbedRequest{Model: m, Input: "hi"})
					case 13:
						name = "blob"
						code, body, _ = v.do("HEAD", "/api/blobs/sha256:0000000000000000000000000000000000000000000000000000000000000000", nil)
					}
					if code >= 500 {
						log(map[string]any{"ev": "status", "op": name, "code": code, "body": string(body[:min(len(body), 200)])})
					}
				}
			}(wk)
		}
		wg.Wait()
		v.h.mu.Lock()
		for _, r := range v.h.recs {
			r["t"] = round
			if p, ok := r["model"].(string); ok {
				r["model"] = p
			}
			recs = append(recs, r)
		}
		v.h.mu.Unlock()
		v.close()
		for _, r := range recs {
			enc.Encode(r)
		}
		total += workers * ops
	}
	fmt.Printf("VF replayed=%d\n", total)
}

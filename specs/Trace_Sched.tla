------------------------------- MODULE Trace_Sched -------------------------------
(* C01 / C02 / C11 -- property monitors over the facts recorded from the real      *)
(* scheduler (harness/server/vf_sched_test.go): runner started / closed, request   *)
(* submitted / granted / refused / ended, what was left at the end.  The variables *)
(* are the observable abstract state; the invariants are the property statements.  *)
(* A failing monitor is recorded (and printed) so that one run judges all traces.  *)
EXTENDS Integers, Sequences, FiniteSets, TLC, Json, IOUtils

VARIABLES l, nbad,
          max,        \* configured limit of loaded runners
          started,    \* runner id -> [model, opt]
          closes,     \* runner id -> number of Close() calls seen
          got,        \* request -> runner granted (0 = none)
          replies,    \* request -> number of replies (runner, error or busy)
          ended,      \* requests whose context has ended
          subm,       \* requests submitted -> [model, opt]
          pingfail,   \* TRUE once a health check was made to fail (reuse is then not required)
          unl,        \* TRUE once a model was unloaded explicitly
          lok,        \* runners whose load was reported successful
          tiny        \* the configuration's only GPU is so small that no model fits next to a loaded one
vars == <<l, nbad, max, started, closes, got, replies, ended, subm, pingfail, unl, lok, tiny>>
Trace == ndJsonDeserialize(IOEnv.VF_TRACE)

Get(f, k, d) == IF k \in DOMAIN f THEN f[k] ELSE d
Put(f, k, v) == [x \in DOMAIN f \cup {k} |-> IF x = k THEN v ELSE f[x]]
Live == {r \in DOMAIN started : Get(closes, r, 0) = 0}

Init == /\ l = 1 /\ nbad = 0 /\ max = 0 /\ started = <<>> /\ closes = <<>> /\ got = <<>> /\ replies = <<>>
        /\ ended = {} /\ subm = <<>> /\ pingfail = FALSE /\ unl = FALSE /\ lok = {} /\ tiny = FALSE

Report(e, flags) ==
  /\ (flags # {}) => PrintT(<<"VFBAD", l, e.t, flags>>)
  /\ nbad' = IF flags # {} THEN nbad + 1 ELSE nbad

Step ==
  /\ l <= Len(Trace) /\ l' = l + 1
  /\ LET e == Trace[l] IN
     CASE e.ev = "reset" ->
            /\ max' = e.max /\ started' = <<>> /\ closes' = <<>> /\ got' = <<>> /\ replies' = <<>>
            /\ ended' = {} /\ subm' = <<>> /\ pingfail' = FALSE /\ nbad' = nbad /\ unl' = FALSE /\ lok' = {} /\ tiny' = e.tiny
       [] e.ev = "submit" ->
            /\ subm' = Put(subm, e.q, [model |-> e.model, opt |-> e.opt])
            /\ Report(e, {}) /\ UNCHANGED <<max, started, closes, got, replies, ended, pingfail, unl, lok, tiny>>
       [] e.ev = "start" ->
            /\ started' = Put(started, e.r, [model |-> e.model, opt |-> e.opt])
            /\ Report(e,
                 (IF max > 0 /\ Cardinality(Live) + 1 > max THEN {"more-runners-than-limit"} ELSE {})
                   \cup (IF \E r \in Live : started[r].model = e.model THEN {"two-runners-for-one-model"} ELSE {})
                   \* "a new runner is started only on GPUs where it is predicted to fit in the memory the loaded models leave free"
                   \cup (IF tiny /\ Live # {} THEN {"runner-started-where-it-does-not-fit"} ELSE {}))
            /\ UNCHANGED <<max, closes, got, replies, ended, subm, pingfail, unl, lok, tiny>>
       [] e.ev = "grant" ->
            /\ got' = Put(got, e.q, e.r)
            /\ replies' = Put(replies, e.q, Get(replies, e.q, 0) + 1)
            /\ Report(e,
                 (IF ~e.alive \/ e.closed \/ e.r = 0 \/ Get(closes, e.r, 0) > 0 THEN {"closed-runner-granted"} ELSE {})
                   \cup (IF Get(replies, e.q, 0) >= 1 THEN {"two-replies"} ELSE {})
                   \cup (IF e.q \in DOMAIN subm /\ e.r \in DOMAIN started /\ started[e.r].opt # subm[e.q].opt
                    THEN {"granted-runner-with-other-options"} ELSE {})
                   \cup (IF e.q \in DOMAIN subm /\ e.r \in DOMAIN started /\ started[e.r].model # subm[e.q].model
                    THEN {"granted-runner-of-other-model"} ELSE {}))
            /\ UNCHANGED <<max, started, closes, ended, subm, pingfail, unl, lok, tiny>>
       [] e.ev = "refuse" ->
            /\ replies' = Put(replies, e.q, Get(replies, e.q, 0) + 1)
            /\ Report(e, IF Get(replies, e.q, 0) >= 1 THEN {"two-replies"} ELSE {})
            /\ UNCHANGED <<max, started, closes, got, ended, subm, pingfail, unl, lok, tiny>>
       [] e.ev = "endctx" ->
            /\ ended' = ended \cup {e.q}
            /\ Report(e, {}) /\ UNCHANGED <<max, started, closes, got, replies, subm, pingfail, unl, lok, tiny>>
       [] e.ev = "close" ->
            /\ closes' = Put(closes, e.r, Get(closes, e.r, 0) + 1)
            /\ Report(e,
                 (IF \E q \in DOMAIN got : got[q] = e.r /\ q \notin ended THEN {"closed-while-in-use"} ELSE {})
                   \cup (IF Get(closes, e.r, 0) >= 1 THEN {"closed-twice"} ELSE {}))
            /\ UNCHANGED <<max, started, got, replies, ended, subm, pingfail, unl, lok, tiny>>
       [] e.ev = "end" ->
            /\ Report(e,
                 (IF e.loaded = 0 - 1 THEN {"scheduler-stuck-holding-its-lock"} ELSE {})
                   \cup (IF e.loaded > 0 \/ e.unclosed # <<>> THEN {"not-drained"} ELSE {})
                   \cup (IF \E q \in DOMAIN subm : q \notin ended /\ Get(replies, q, 0) = 0 THEN {"request-never-answered"} ELSE {})
                   \cup (IF \E q \in DOMAIN subm : Get(replies, q, 0) > 1 THEN {"two-replies"} ELSE {}))
            /\ UNCHANGED <<max, started, closes, got, replies, ended, subm, pingfail, unl, lok, tiny>>
       [] e.ev = "pingfail" -> pingfail' = TRUE /\ Report(e, {}) /\ UNCHANGED <<max, started, closes, got, replies, ended, subm, unl, lok, tiny>>
       [] e.ev = "unload" -> unl' = TRUE /\ Report(e, {}) /\ UNCHANGED <<max, started, closes, got, replies, ended, subm, pingfail, lok, tiny>>
       [] e.ev = "loadresult" -> lok' = (IF e.ok THEN lok \cup {e.r} ELSE lok) /\ Report(e, {})
                                 /\ UNCHANGED <<max, started, closes, got, replies, ended, subm, pingfail, unl, tiny>>
       \* the scheduler has settled while every request is still in progress.  When all requests so far name one model
       \* with one set of load options, nothing was unloaded explicitly and a runner of that model is loaded and alive,
       \* an unanswered request can only be waiting for that runner to become idle: it was not reused (C11)
       [] e.ev = "quiet" ->
            /\ Report(e,
                 IF /\ ~unl /\ ~pingfail /\ e.queued = 0 /\ Cardinality({subm[q] : q \in DOMAIN subm}) = 1
                    /\ \E q \in DOMAIN subm : Get(replies, q, 0) = 0 /\ q \notin ended
                                               /\ \E r \in Live \cap lok : started[r] = subm[q]
                 THEN {"compatible-request-waits-instead-of-reusing-the-loaded-runner"} ELSE {})
            /\ UNCHANGED <<max, started, closes, got, replies, ended, subm, pingfail, unl, lok, tiny>>
       [] OTHER -> Report(e, {}) /\ UNCHANGED <<max, started, closes, got, replies, ended, subm, pingfail, unl, lok, tiny>>
Accepted == TLCGet("stats").diameter = Len(Trace) + 1
===============================================================================

--------------------------------- MODULE Pull ---------------------------------
(* C03 -- PullModel (server/images.go, server/download.go) against a registry    *)
(* and a CDN that misbehave.  One behaviour = a sequence of pull attempts for    *)
(* the same name; in every attempt some requests are answered with a fault.      *)
(* The published model has three blobs (1 = model layer, 2 = system layer,       *)
(* 3 = config), each downloaded as one part of two units.                        *)
(*                                                                              *)
(* Store state: final[b] in {absent, good, bad}, part[b] = units already in the  *)
(* partial file (0..2) and whether they are good, man in {absent, old, new}.     *)
(* An attempt follows PullModel: manifest; for every blob in order: cache hit    *)
(* (final exists -> no download and NO verification), else HEAD, redirect,       *)
(* chunk requests (a failed chunk is retried inside the attempt), rename;        *)
(* then verification of the blobs downloaded in this attempt (mismatch -> the    *)
(* file is removed and the attempt fails); manifest written last; old layers     *)
(* pruned afterwards.                                                            *)
EXTENDS Integers, Sequences, FiniteSets, FiniteSetsExt, TLC, Json

CONSTANTS MaxAttempts, MaxFaults, Pre     \* Pre: "none" | "old" (an older version of the model is installed)

Blobs == 1..3
ManifestFaults == {"503", "404", "401-empty-realm", "401-no-quotes", "401-garbage", "empty-digest"}
HeadFaults == {"503"}
RedirectFaults == {"503", "same-host"}
ChunkFaults == {"flip", "trunc1", "reset", "503short", "503long", "range-ignored"}
\* request slots of one attempt: manifest, per blob: head, redirect, first and second chunk request
Slots == {<<"m", 0>>} \cup {<<c, b>> : c \in {"h", "r", "ca", "cb"}, b \in Blobs}
FaultsOf(s) == CASE s[1] = "m" -> ManifestFaults [] s[1] = "h" -> HeadFaults [] s[1] = "r" -> RedirectFaults
                 [] OTHER -> ChunkFaults
Pairs == UNION {{<<s, x>> : x \in FaultsOf(s)} : s \in Slots}
FaultSets == {F \in UNION {kSubset(k, Pairs) : k \in 0..MaxFaults} : \A p, q \in F : p[1] = q[1] => p = q}
Script(F) == [s \in Slots |-> IF \E p \in F : p[1] = s THEN (CHOOSE p \in F : p[1] = s)[2] ELSE "ok"]
Scripts == {Script(F) : F \in FaultSets}

VARIABLES final, part, man, attempts, outcomes, hist
vars == <<final, part, man, attempts, outcomes, hist>>
NoPart == [done |-> 0, good |-> TRUE]
Init == /\ final = [b \in Blobs |-> "absent"] /\ part = [b \in Blobs |-> NoPart]
        /\ man = IF Pre = "old" THEN "old" ELSE "absent"
        /\ attempts = 0 /\ outcomes = <<>> /\ hist = <<>>

\* what one chunk request does to a partial file: <<units done, all good?, finished the part?>>
Chunk(p, f) ==
  CASE f = "ok"            -> [done |-> 2, good |-> p.good]
    [] f = "flip"          -> [done |-> 2, good |-> FALSE]
    [] f = "503long"       -> [done |-> 2, good |-> FALSE]                 \* the status of a chunk response is not looked at
    [] f = "range-ignored" -> [done |-> 2, good |-> p.good /\ p.done = 0] \* the whole body from byte 0: wrong when resuming
    [] f = "trunc1"        -> [done |-> IF p.done = 0 THEN 1 ELSE p.done, good |-> p.good]   \* progress kept, retried
    [] f \in {"reset", "503short"} -> p                                     \* nothing kept, retried

\* download of blob b under script f: the part after the first request, the retry, and further clean retries
Downloaded(p, f, b) ==
  LET p1 == Chunk(p, f[<<"ca", b>>])
      p2 == IF p1.done = 2 THEN p1 ELSE Chunk(p1, f[<<"cb", b>>])
  IN IF p2.done = 2 THEN p2 ELSE Chunk(p2, "ok")

\* one attempt, blob by blob: st = [final, part, fetched (blobs downloaded in this attempt), failed]
RECURSIVE Fetch(_, _, _)
Fetch(st, f, b) ==
  IF b > 3 \/ st.failed THEN st
  ELSE IF st.final[b] # "absent" THEN Fetch(st, f, b + 1)                          \* cache hit
  ELSE IF f[<<"h", b>>] # "ok" /\ st.part[b].done = 0 /\ st.part[b] = NoPart THEN [st EXCEPT !.failed = TRUE]   \* HEAD only without part files
  ELSE IF f[<<"r", b>>] # "ok" THEN [st EXCEPT !.failed = TRUE]      \* 5xx, or a blob served without the redirect to another host
  ELSE LET p == Downloaded(st.part[b], f, b) IN
       Fetch([st EXCEPT !.final[b] = IF p.good THEN "good" ELSE "bad", !.part[b] = NoPart, !.fetched = @ \cup {b}], f, b + 1)

Attempt(f) ==
  /\ attempts < MaxAttempts
  /\ attempts' = attempts + 1
  /\ hist' = Append(hist, {[slot |-> s[1], b |-> s[2], f |-> f[s]] : s \in {x \in Slots : f[x] # "ok"}})
  /\ IF f[<<"m", 0>>] # "ok"
       THEN /\ outcomes' = Append(outcomes, "fail") /\ UNCHANGED <<final, part, man>>
       ELSE LET st == Fetch([final |-> final, part |-> part, fetched |-> {}, failed |-> FALSE], f, 1)
                badNew == {b \in st.fetched : st.final[b] = "bad"}
                \* verification of what was downloaded now: mismatching files are removed
                fin2 == [b \in Blobs |-> IF b \in badNew THEN "absent" ELSE st.final[b]]
                ok == ~st.failed /\ badNew = {}
            IN /\ final' = fin2 /\ part' = st.part
               /\ man' = IF ok THEN "new" ELSE man
               /\ outcomes' = Append(outcomes, IF ok THEN "ok" ELSE "fail")
Next == \E f \in Scripts : Attempt(f)
Spec == Init /\ [][Next]_vars

\* ---------------------------------------------------------------- the property, on the design
\* a reported success means every blob is there and right, and the new manifest is stored
SuccessMeansComplete == (outcomes # <<>> /\ outcomes[Len(outcomes)] = "ok") => (man = "new" /\ \A b \in Blobs : final[b] = "good")
\* no verified-away or never-verified bad blob stays at its final name between attempts
NoBadBlobLeft == \A b \in Blobs : final[b] # "bad"
\* the name resolves to the new manifest only when everything it names is right
NeverDangling == man = "new" => \A b \in Blobs : final[b] = "good"
\* whatever happened before, an attempt without faults succeeds
CleanScript == [s \in Slots |-> "ok"]
RetryCanSucceed ==
  LET st == Fetch([final |-> final, part |-> part, fetched |-> {}, failed |-> FALSE], CleanScript, 1)
  IN ~st.failed /\ \A b \in Blobs : st.final[b] = "good"

Emit == (attempts = MaxAttempts) => PrintT(ToJson(hist))
View == <<final, part, man, attempts, outcomes>>
===============================================================================

"""Parse Go race detector reports: -> list of dict(accesses=[(kind, func, file:line)], text)."""
import os
import re

ACCESS = re.compile(r'^(Read|Write|Previous read|Previous write|Atomic read|Atomic write|Previous atomic read|Previous atomic write) at \S+ by (?:main )?goroutine \d+:\n((?:  .*\n)+)', re.M)
FRAME = re.compile(r'  (\S+)\(\)\n      (\S+?):(\d+)')


def parse(out, repo="/repo"):
    reports = []
    for blk in out.split("==================\n"):
        if "WARNING: DATA RACE" not in blk:
            continue
        acc = []
        for m in ACCESS.finditer(blk):
            frames = FRAME.findall(m.group(2))
            top = None
            for fn, path, line in frames:
                if path.startswith(repo + "/") and "/vf_" not in path:
                    top = (fn.split("/")[-1], os.path.relpath(path, repo) + ":" + line)
                    break
            acc.append((m.group(1), top[0] if top else None, top[1] if top else None))
        reports.append(dict(accesses=acc, text=blk))
    return reports


def source_line(loc, repo="/repo"):
    try:
        path, line = loc.rsplit(":", 1)
        with open(os.path.join(repo, path)) as f:
            return f.readlines()[int(line) - 1].strip()
    except Exception:
        return ""

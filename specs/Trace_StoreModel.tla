---------------------------- MODULE Trace_StoreModel ----------------------------
(* C04 -- conformance of the real store with Store.tla: every recorded operation   *)
(* (harness/server/vf_store_test.go) is applied to the model with Store's own       *)
(* actions, and the model's manifests and layer blobs are compared with the          *)
(* projection of the real store recorded after the operation.  Differences are       *)
(* VFDRIFT; the property itself is judged by Trace_Store.tla.  Config blobs are not  *)
(* compared (the registry's config of a version differs from the one create writes   *)
(* for the same layers, which the model does not distinguish).                       *)
EXTENDS Store, IOUtils

MCFold == [a |-> "a", A |-> "a", b |-> "b"]
MCVersions == [v1 |-> {"G1", "S1"}, v2 |-> {"G2", "S1"}]
VARIABLES l, tid
Trace == ndJsonDeserialize(IOEnv.VF_TRACE)
Rng(f) == {f[i] : i \in DOMAIN f}
TInit == Init /\ l = 1 /\ tid = 0

ObsMan(e) == [n \in Names |-> IF n \in DOMAIN e.man THEN [layers |-> Rng(e.man[n]), present |-> TRUE] ELSE NoneM]
ObsBlobs(e) == {d \in DOMAIN e.blobs : d \in Layer}
Diff(e, m, b) ==
     (IF DOMAIN e.man \ Names # {} THEN {"unknown-manifest-in-store"} ELSE {})
\cup (IF ObsMan(e) # m THEN {"manifests-differ-from-model"} ELSE {})
\cup (IF ObsBlobs(e) # b THEN {"layer-blobs-differ-from-model"} ELSE {})

Apply(e) ==
  CASE e.op = "upload"      -> Upload(e.g)
    [] e.op = "createfiles" -> CreateFiles(e.n, e.g, e.s, e.tp)
    [] e.op = "createfrom"  -> CreateFrom(e.n, e.m, e.s, e.tp)
    [] e.op = "copy"        -> Copy(e.m, e.n)
    [] e.op = "delete"      -> Delete(e.n)
    [] e.op = "pull"        -> Pull(e.n, e.v)
    [] e.op = "prune"       -> Prune
    [] OTHER                -> UNCHANGED <<man, blobs, cfgs, bad>>

Step ==
  /\ l <= Len(Trace) /\ l' = l + 1 /\ UNCHANGED <<ops, hist>>
  /\ LET e == Trace[l] IN
       IF e.ev = "reset"
         THEN man' = [n \in Names |-> NoneM] /\ blobs' = {} /\ cfgs' = {} /\ bad' = {} /\ tid' = e.t
         ELSE /\ Apply(e) /\ tid' = tid
              /\ LET d == Diff(e, man', blobs') IN (d # {}) => PrintT(<<"VFDRIFT", l, tid, d>>)
Accepted == TLCGet("stats").diameter = Len(Trace) + 1
===============================================================================

"""C13 -- model names and digests cannot address anything outside the model store.

NamesCore.tla: reference grammar + transcription of both splitting algorithms; Names.tla enumerates
strings (segments x separators) and TLC checks confinement / round trip / parser agreement on the
reference; every string (plus a length family and digest-shaped strings) is given to the real parsers,
path builders and blob cache; Trace_Names.tla judges the recorded outputs.
"""
import itertools
import json
import os
import time

import vf

PROP = "C13"
MC_BODY = """
INIT Init
NEXT Next
INVARIANT Confined
INVARIANT RoundTrip
INVARIANT ParsersAgree
CONSTRAINT Emit
CHECK_DEADLOCK FALSE
"""


def length_family():
    out = []
    for h, n, m, t in itertools.product((1, 350, 351), (1, 80, 81), (1, 80, 81), (1, 80, 81)):
        if sum(x > 1 for x in (h, n, m, t)) > 2:
            continue
        out.append(list("a" * h + "/" + "b" * n + "/" + "c" * m + ":" + "d" * t))
    out.append(list("a" * 350 + "/" + "b" * 80 + "/" + "c" * 80 + ":" + "d" * 80))     # exactly MaxNameLength
    out.append(list("a" * 350 + "/" + "b" * 80 + "/" + "c" * 80 + ":" + "d" * 80 + "e"))
    out += [list(x) for x in ("../../etc/passwd", "a/b/c:../../x", "a/b/c:t:..", "a/b/c:t:.", "a/../c:t", "a/b/..:t", "./b/c:t",
                              "a\\b/c/d:e", "a/b/c\\..\\..:t", "a/b/c:t\x00", "\x00", "a/b/c:t/", "/a/b/c:t", "a//c:t", "http://a/b/c:t",
                              "a/b/c@sha256:" + "0" * 64, "registry.ollama.ai/library/m:latest", "é/b/c:t", "a/b/c:t\n")]
    return out


def digest_family():
    out = []
    hexes = {"lower": "0123456789abcdef" * 4, "upper": "0123456789ABCDEF" * 4, "nonhex": "g" * 64,
             "dots": "../" * 21 + "a", "slash": "a" * 30 + "/../" + "b" * 30}
    for pre, sep, n, kind, extra in itertools.product(("sha256", "sha255", "SHA256", "", "../sha256"), (":", "-", "/", "", "::"),
                                                      (0, 63, 64, 65), hexes, ("", "/..", "\x00", "/x")):
        body = hexes[kind][:n] if n <= 64 else hexes[kind] + hexes[kind][0]
        s = pre + sep + body + extra
        wf = pre == "sha256" and sep in (":", "-") and n == 64 and kind in ("lower", "upper") and extra == ""
        out.append((s, wf))
    out += [("", False), ("sha256", False), ("sha256:", False), (":", False), ("-", False), ("..", False), ("/", False)]
    return vf.dedupe([dict(s=s, wf=wf) for s, wf in out])


def run(tier="quick", seed=1, replay=None):
    t0 = time.time()
    res = vf.Result(PROP)
    quick = tier == "quick"
    cov = dict(states=0, transitions=0, traces_validated_against_impl=0, samples=[], evaluations=0,
               distinct_nontrivial=0)
    with vf.scratch("vf-c13-") as wd:
        if replay:
            cases = [json.loads(l) for l in open(replay) if l.strip()]
        else:
            cfg = vf.write_cfg(wd, "MC_Names.cfg", {"MaxSegs": 4, "SegLevel": 1 if quick else 2}, MC_BODY)
            vals, r = vf.gen_exhaustive("Names", cfg, wd, timeout=3000)
            cov["states"], cov["transitions"] = r["distinct"], r["generated"]
            cov["exhaustive"] = True
            cov["bounds"] = (f"all strings seg (sep seg)* with <= 4 segments out of {7 if quick else 12} segments and 5 separators; "
                             "plus 5-segment strings sampled, a length family around 80/81/350/351 and digest-shaped strings")
            cfg = vf.write_cfg(wd, "Sim_Names.cfg", {"MaxSegs": 6, "SegLevel": 2}, MC_BODY.replace("INVARIANT Confined\nINVARIANT RoundTrip\nINVARIANT ParsersAgree\n", ""))
            sims, _ = vf.gen_simulate("Names", cfg, wd, num=200 if quick else 4000, depth=8, seed=seed)
            strings = vf.dedupe(vals + sims + length_family())
            cases = [dict(id=i + 1, kind="name", chars=s) for i, s in enumerate(strings)]
            base = len(cases)
            cases += [dict(id=base + i + 1, kind="digest", s=d["s"], wf=d["wf"], chars=[]) for i, d in enumerate(digest_family())]
            cases += vf.load_witnesses(PROP)
        inp = os.path.join(wd, "cases.ndjson")
        with open(inp, "w") as f:
            for c in cases:
                f.write(json.dumps(c) + "\n")
        t1, t2, trace = (os.path.join(wd, x) for x in ("t1.ndjson", "t2.ndjson", "trace.ndjson"))
        rc, out = vf.go_test2("./server", "^TestVFNamesReplay$", wd, vf.harness_overlay(["server"]),
                              env=dict(VF_IN=inp, VF_OUT=t1), timeout=2400)
        if rc != 0 or "VF replayed=" not in out:
            raise vf.Inconclusive("names harness (server) failed:\n" + out[-3000:])
        rc, out2 = vf.go_test2("./server/internal/cache/blob", "^TestVFNamesParse$", wd,
                               vf.harness_overlay(["server/internal/cache/blob"]), env=dict(VF_IN=inp, VF_OUT=t2), timeout=2400)
        if rc != 0 or "VF replayed=" not in out2:
            raise vf.Inconclusive("names harness (internal/names) failed:\n" + out2[-3000:])
        second = {r["id"]: r for r in vf.read_ndjson(t2)}
        with open(trace, "w") as f:
            for r in vf.read_ndjson(t1):
                if r["ev"] == "name":
                    x = second.get(r["id"])
                    if x is None:
                        raise vf.Inconclusive(f"no internal/names record for case {r['id']}")
                    if x.pop("npanic"):
                        r["panic"] = r["panic"] or "internal/names: panic"
                        x = dict(nb=["", "", "", ""], nv=False, nfq=False, nrt=True, xn2m=True, xm2n=True)
                    r.update(x)
                f.write(json.dumps(r) + "\n")
        with open(os.path.join(wd, "Trace_Names.cfg"), "w") as f:
            f.write(vf.TRACE_CFG)
        v = vf.validate_trace("Trace_Names", "Trace_Names.cfg", trace, wd, timeout=3000)
        recs = vf.read_ndjson(trace)
        by_id = {str(c["id"]): c for c in cases}
        cov["traces_validated_against_impl"] = len(recs)
        cov["evaluations"] = len(recs)
        cov["distinct_nontrivial"] = len({"".join(r["chars"]) for r in recs if r["ev"] == "name" and (r["mv"] or r["nfq"] or r["linkok"])}) \
            + sum(1 for r in recs if r["ev"] == "digest" and (r["gbpok"] or r["pdok"]))
        cov["rule"] = "case = one string; non-trivial = accepted by at least one parser / path builder; distinct by value"
        acc = [r for r in recs if r["ev"] == "name" and r["nfq"]]
        cov["samples"] = recs[:1] + acc[:2] + [r for r in recs if r["ev"] == "digest"][:2]
        shown = {}
        for ln, cid, flags in v["bad"]:
            key = tuple(flags)
            shown[key] = shown.get(key, 0) + 1
            if shown[key] > 2 or len(res.violations) >= 8:
                continue
            p = vf.save_replay(PROP, f"names-{tier}-{seed}-{cid}.ndjson", json.dumps(by_id.get(cid)) + "\n")
            res.violation(f"{flags}: {json.dumps(recs[ln - 1])[:600]}", p)
        cov["violation_kinds"] = {",".join(k): n for k, n in shown.items()}
        dk = {}
        for _, _, fl in v["drift"]:
            for f in fl:
                dk[f] = dk.get(f, 0) + 1
        cov["drift"] = dk
        if dk:
            res.note(f"drift (accept/reject or split differs from the reference grammar, no C13 clause broken): {dk}")
        cov["checker_cmd"] = "tlc Names.tla (MC_Names.cfg) ; tlc Trace_Names.tla"
    vf.write_evidence(PROP, tier, seed, "model_checking", cov, time.time() - t0, violations=len(res.violations),
                      assumptions=["Linux path semantics (backslash is not a separator on the host running the check)",
                                   "the empty digest is exempt: GetBlobsPath(\"\") is the internal way to obtain the blobs directory"])
    return res.finish()

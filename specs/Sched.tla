------------------------------- MODULE Sched -------------------------------
(* C01 / C02 / C11 -- server/sched.go: the pending loop P, the completion loop *)
(* C, loader goroutines, finish goroutines, keep-alive timers, the 10 ms       *)
(* re-queue of expiry events and explicit unload (expireRunner) X.  One action *)
(* per critical section / channel operation; mutexes are owner variables so    *)
(* that hold-and-wait is visible.  Three deviations of the pinned code are     *)
(* kept as named switches (FALSE = as pinned, TRUE = repaired):                *)
(*   FixRecheckOnUse    useLoadedRunner hands out the runner read earlier even *)
(*                      if it was unloaded in between (closed runner granted) *)
(*   FixIdentityDelete  the unload deletes loaded[path] whatever runner is     *)
(*                      there (a duplicate expiry event removes a newer one)  *)
(*   FixLockOrder       expireRunner / updateFreeSpace take loadedMu then      *)
(*                      refMu while the expiry branch takes refMu then        *)
(*                      loadedMu (lock-order cycle)                           *)
EXTENDS Integers, Sequences, FiniteSets, TLC, Json

CONSTANTS Model, Req, ModelOf, OptOf, KeepOf, MaxRunners, MaxRunnerIds, QueueCap,
          DefaultKeep, AllowExplicitUnload, AllowPingFail, AllowLoadFail,
          FixRecheckOnUse, FixIdentityDelete, FixLockOrder, MaxHist,
          CallerLeavesOnCancel   \* FALSE = the code: scheduleRunner (routes.go) waits for the scheduler's reply whatever happens to
                                 \* its context.  TRUE: it returns when the context is done -- then nobody receives on the
                                 \* unbuffered successCh and useLoadedRunner blocks in its send, holding the runner's refMu

None == "none"
NoR == 0   \* "no runner"
NoKeep == -1
RunnerId == 1..MaxRunnerIds

VARIABLES
  pendingQ,    \* Seq(Req)            pendingReqCh
  finishedQ,   \* Seq(Req)            finishedReqCh
  expiredQ,    \* Seq(RunnerId)       expiredCh
  unloadedN,   \* Nat                 len(unloadedCh)
  loaded,      \* [Model -> RunnerId \cup {None}]   s.loaded
  run,         \* [RunnerId -> record]  runnerRef fields (for allocated ids)
  nextId,      \* next runner id to allocate
  refMu,       \* [RunnerId -> owner]  "free" | "L" | "C" | "X"
  loadedMu,    \* "free" | "X" | "PU"
  ppc, preq, pvictim, ptodo,   \* processPending loop state
  cpc, crun,                    \* processCompleted loop state
  xpc, xmodel, xrun,            \* one expireRunner caller
  rq,          \* [Req -> record] request state
  requeue,     \* bag (set) of runner ids with a pending 10ms re-queue goroutine
  closes,      \* [RunnerId -> Nat]  number of Close() calls observed
  viol,        \* set of violation tags (history variable)
  hist         \* the behaviour so far, as labels the replay driver understands

vars == <<pendingQ, finishedQ, expiredQ, unloadedN, loaded, run, nextId, refMu, loadedMu,
          ppc, preq, pvictim, ptodo, cpc, crun, xpc, xmodel, xrun, rq, requeue, closes, viol, hist>>

NoRun == [model |-> None, alive |-> FALSE, loading |-> FALSE, ref |-> 0, dur |-> 0,
          timer |-> "none", opt |-> 0, loader |-> None]

Init ==
  /\ pendingQ = <<>> /\ finishedQ = <<>> /\ expiredQ = <<>> /\ unloadedN = 0
  /\ loaded = [m \in Model |-> NoR]
  /\ run = [r \in RunnerId |-> NoRun]
  /\ nextId = 1
  /\ refMu = [r \in RunnerId |-> "free"]
  /\ loadedMu = "free"
  /\ ppc = "idle" /\ preq = None /\ pvictim = NoR /\ ptodo = {}
  /\ cpc = "idle" /\ crun = NoR
  /\ xpc = "idle" /\ xmodel = None /\ xrun = NoR
  /\ rq = [q \in Req |-> [st |-> "new", ctx |-> "live", replies |-> 0, got |-> NoR, fin |-> "none"]]
  /\ requeue = {}
  /\ closes = [r \in RunnerId |-> 0]
  /\ viol = {}
  /\ hist = <<>>

Allocated(r) == r < nextId
InUse(r) == \E q \in Req : rq[q].st = "granted" /\ rq[q].got = r /\ rq[q].ctx = "live"
Live(r) == Allocated(r) /\ run[r].alive
LoadedCount == Cardinality({m \in Model : loaded[m] # NoR})

\* ---------------------------------------------------------------- callers
Submit(q) ==
  /\ rq[q].st = "new"
  /\ IF Len(pendingQ) < QueueCap
       THEN /\ pendingQ' = Append(pendingQ, q)
            /\ rq' = [rq EXCEPT ![q].st = "queued"]
       ELSE /\ rq' = [rq EXCEPT ![q].st = "done", ![q].replies = @ + 1]   \* ErrMaxQueue
            /\ UNCHANGED pendingQ
  /\ UNCHANGED <<finishedQ, expiredQ, unloadedN, loaded, run, nextId, refMu, loadedMu, ppc, preq,
                 pvictim, ptodo, cpc, crun, xpc, xmodel, xrun, requeue, closes, viol>>

\* generation only (MaxHist > 0): keep the environment from drowning the scheduler's own steps
Count(a) == Cardinality({i \in DOMAIN hist : hist[i].a = a})
Cancels == Cardinality({i \in DOMAIN hist : hist[i].a = "EndCtx" /\ hist[i].r = 1})

\* request context ends (client done or cancelled)
EndCtx(q) ==
  /\ rq[q].st # "new" /\ rq[q].ctx = "live"
  /\ (MaxHist = 0 \/ rq[q].st \in {"granted", "failed", "done"} \/ Cancels < 1)
  /\ rq' = [rq EXCEPT ![q].ctx = "done"]
  /\ UNCHANGED <<pendingQ, finishedQ, expiredQ, unloadedN, loaded, run, nextId, refMu, loadedMu, ppc,
                 preq, pvictim, ptodo, cpc, crun, xpc, xmodel, xrun, requeue, closes, viol>>

\* finish goroutine posts to finishedReqCh once the ctx is done
FinPost(q) ==
  /\ rq[q].fin = "armed" /\ rq[q].ctx = "done"
  /\ Len(finishedQ) < QueueCap
  /\ finishedQ' = Append(finishedQ, q)
  /\ rq' = [rq EXCEPT ![q].fin = "posted"]
  /\ UNCHANGED <<pendingQ, expiredQ, unloadedN, loaded, run, nextId, refMu, loadedMu, ppc, preq,
                 pvictim, ptodo, cpc, crun, xpc, xmodel, xrun, requeue, closes, viol>>

\* ------------------------------------------------------- processPending (P)
PRecv ==
  /\ ppc = "idle" /\ pendingQ # <<>>
  /\ pendingQ' = Tail(pendingQ)
  /\ LET q == Head(pendingQ) IN
       IF rq[q].ctx = "done"
         THEN /\ rq' = [rq EXCEPT ![q].st = "dropped"] /\ UNCHANGED <<ppc, preq>>
         ELSE /\ ppc' = "decide" /\ preq' = q /\ UNCHANGED rq
  /\ UNCHANGED <<finishedQ, expiredQ, unloadedN, loaded, run, nextId, refMu, loadedMu, pvictim, ptodo,
                 cpc, crun, xpc, xmodel, xrun, requeue, closes, viol>>

PIgnoreUnloaded ==
  /\ ppc = "idle" /\ unloadedN > 0
  /\ unloadedN' = unloadedN - 1
  /\ UNCHANGED <<pendingQ, finishedQ, expiredQ, loaded, run, nextId, refMu, loadedMu, ppc, preq, pvictim,
                 ptodo, cpc, crun, xpc, xmodel, xrun, rq, requeue, closes, viol>>

\* read s.loaded under loadedMu and branch
PDecide ==
  /\ ppc = "decide" /\ loadedMu = "free"
  /\ LET m == ModelOf[preq] r == loaded[m] IN
       IF r # NoR THEN ppc' = "reloadq" /\ pvictim' = r
       ELSE IF LoadedCount >= MaxRunners THEN ppc' = "victim" /\ pvictim' = NoR
       ELSE ppc' = "fit" /\ pvictim' = NoR
  /\ UNCHANGED <<pendingQ, finishedQ, expiredQ, unloadedN, loaded, run, nextId, refMu, loadedMu, preq,
                 ptodo, cpc, crun, xpc, xmodel, xrun, rq, requeue, closes, viol>>

\* needsReload: under refMu of the runner read a moment ago
PNeedsReload ==
  /\ ppc = "reloadq" /\ refMu[pvictim] = "free"
  /\ LET r == pvictim IN
     \/ /\ (~run[r].alive \/ run[r].opt # OptOf[preq])        \* Options==nil or options differ
        /\ ppc' = "expire"
     \/ /\ run[r].alive /\ run[r].opt = OptOf[preq]
        /\ \/ ppc' = "use"
           \/ AllowPingFail /\ ppc' = "expire"                 \* Ping failed
  /\ UNCHANGED <<pendingQ, finishedQ, expiredQ, unloadedN, loaded, run, nextId, refMu, loadedMu, preq,
                 pvictim, ptodo, cpc, crun, xpc, xmodel, xrun, rq, requeue, closes, viol>>

KeepFor(q, old) == IF KeepOf[q] = NoKeep THEN old ELSE KeepOf[q]

\* useLoadedRunner: refCount++, stop timer, reply, arm finish goroutine.
\* Repaired code: under refMu, a runner that was unloaded since it was read is not handed out;
\* the pending loop looks at the table again.
PUse ==
  /\ ppc = "use" /\ refMu[pvictim] = "free"
  /\ IF FixRecheckOnUse /\ ~run[pvictim].alive
       THEN /\ ppc' = "decide" /\ pvictim' = NoR
            /\ UNCHANGED <<run, rq, preq, viol, refMu>>
       ELSE IF CallerLeavesOnCancel /\ rq[preq].ctx = "done"
       THEN \* the send on successCh never completes: processPending stays here with refMu held
            /\ ppc' = "sendblocked" /\ refMu' = [refMu EXCEPT ![pvictim] = "P"]
            /\ run' = [run EXCEPT ![pvictim].ref = @ + 1, ![pvictim].timer = IF @ = "armed" THEN "none" ELSE @]
            /\ UNCHANGED <<rq, preq, pvictim, viol>>
       ELSE /\ LET r == pvictim q == preq IN
                 /\ run' = [run EXCEPT ![r].ref = @ + 1,
                                       ![r].timer = IF @ = "armed" THEN "none" ELSE @,
                                       ![r].dur = KeepFor(q, @)]
                 /\ rq' = [rq EXCEPT ![q].st = "granted", ![q].replies = @ + 1, ![q].got = r, ![q].fin = "armed"]
            /\ ppc' = "idle" /\ preq' = None /\ pvictim' = NoR /\ UNCHANGED refMu
            /\ viol' = IF run[pvictim].alive THEN viol ELSE viol \cup {"grant_dead"}
  /\ UNCHANGED <<pendingQ, finishedQ, expiredQ, unloadedN, loaded, nextId, loadedMu, ptodo,
                 cpc, crun, xpc, xmodel, xrun, requeue, closes>>

\* fit decision: with other models loaded, updateFreeSpace walks the table.  Pinned code: holds
\* loadedMu while taking every runner's refMu; repaired: snapshot under loadedMu, then each refMu.
\* The outcome itself is abstract: load now, or evict first (only when something is loaded).
PFit ==
  /\ ppc = "fit"
  /\ IF LoadedCount > 0 /\ ~FixLockOrder
       THEN /\ loadedMu = "free" /\ loadedMu' = "PU" /\ ppc' = "updfree"
       ELSE /\ UNCHANGED loadedMu
            /\ \/ ppc' = "load"
               \/ LoadedCount > 0 /\ ppc' = "victim"
  /\ UNCHANGED <<pendingQ, finishedQ, expiredQ, unloadedN, loaded, run, nextId, refMu, preq,
                 pvictim, ptodo, cpc, crun, xpc, xmodel, xrun, rq, requeue, closes, viol>>

PUpdFree ==
  /\ ppc = "updfree" /\ loadedMu = "PU"
  /\ \A m \in Model : loaded[m] # NoR => refMu[loaded[m]] = "free"
  /\ loadedMu' = "free"
  /\ \/ ppc' = "load"
     \/ LoadedCount > 0 /\ ppc' = "victim"
  /\ UNCHANGED <<pendingQ, finishedQ, expiredQ, unloadedN, loaded, run, nextId, refMu, preq,
                 pvictim, ptodo, cpc, crun, xpc, xmodel, xrun, rq, requeue, closes, viol>>

\* s.load: newServerFn ok -> runner registered with ref=1, refMu held by its loader goroutine
PLoad ==
  /\ ppc = "load" /\ loadedMu = "free" /\ nextId <= MaxRunnerIds
  /\ LET r == nextId q == preq m == ModelOf[preq] IN
       /\ run' = [run EXCEPT ![r] = [model |-> m, alive |-> TRUE, loading |-> TRUE, ref |-> 1,
                                     dur |-> KeepFor(q, DefaultKeep), timer |-> "none",
                                     opt |-> OptOf[q], loader |-> q]]
       /\ refMu' = [refMu EXCEPT ![r] = "L"]
       /\ loaded' = [loaded EXCEPT ![m] = r]
       /\ nextId' = nextId + 1
  /\ ppc' = "idle" /\ preq' = None
  /\ UNCHANGED <<pendingQ, finishedQ, expiredQ, unloadedN, loadedMu, pvictim, ptodo, cpc, crun, xpc,
                 xmodel, xrun, rq, requeue, closes, viol>>

\* loader goroutine: WaitUntilRunning returned nil
LoadOk(r) ==
  /\ Allocated(r) /\ refMu[r] = "L" /\ run[r].loading
  /\ rq[run[r].loader].ctx = "live"
  /\ run' = [run EXCEPT ![r].loading = FALSE]
  /\ refMu' = [refMu EXCEPT ![r] = "free"]
  /\ rq' = [rq EXCEPT ![run[r].loader].st = "granted", ![run[r].loader].replies = @ + 1,
                      ![run[r].loader].got = r, ![run[r].loader].fin = "armed"]
  /\ UNCHANGED <<pendingQ, finishedQ, expiredQ, unloadedN, loaded, nextId, loadedMu, ppc, preq, pvictim,
                 ptodo, cpc, crun, xpc, xmodel, xrun, requeue, closes, viol>>

\* loader goroutine: WaitUntilRunning failed (load error or ctx cancelled)
LoadFail(r) ==
  /\ Allocated(r) /\ refMu[r] = "L" /\ run[r].loading
  /\ (AllowLoadFail \/ rq[run[r].loader].ctx = "done")
  /\ Len(expiredQ) < QueueCap
  /\ run' = [run EXCEPT ![r].ref = @ - 1]
  /\ expiredQ' = Append(expiredQ, r)
  /\ refMu' = [refMu EXCEPT ![r] = "free"]
  /\ rq' = [rq EXCEPT ![run[r].loader].st = "failed", ![run[r].loader].replies = @ + 1]
  /\ UNCHANGED <<pendingQ, finishedQ, unloadedN, loaded, nextId, loadedMu, ppc, preq, pvictim, ptodo,
                 cpc, crun, xpc, xmodel, xrun, requeue, closes, viol>>

\* findRunnerToUnload: idle first (sorted by duration, then name ~ id), else first
Candidates == {loaded[m] : m \in {mm \in Model : loaded[mm] # NoR}}
Less(a, b) == run[a].dur < run[b].dur \/ (run[a].dur = run[b].dur /\ a < b)
PVictim ==
  /\ ppc = "victim" /\ loadedMu = "free"
  /\ \A r \in Candidates : refMu[r] = "free"     \* reads each refCount under its refMu
  /\ IF Candidates = {} THEN ppc' = "decide" /\ pvictim' = NoR
     ELSE LET idle == {r \in Candidates : run[r].ref = 0}
              pool == IF idle # {} THEN idle ELSE Candidates
              v == CHOOSE r \in pool : \A o \in pool : o = r \/ Less(r, o)
          IN ppc' = "expire" /\ pvictim' = v
  /\ UNCHANGED <<pendingQ, finishedQ, expiredQ, unloadedN, loaded, run, nextId, refMu, loadedMu, preq,
                 ptodo, cpc, crun, xpc, xmodel, xrun, rq, requeue, closes, viol>>

PExpire ==
  /\ ppc = "expire" /\ refMu[pvictim] = "free"
  /\ LET r == pvictim IN
       /\ run' = [run EXCEPT ![r].timer = IF @ = "armed" THEN "none" ELSE @, ![r].dur = 0]
       /\ IF run[r].ref <= 0
            THEN Len(expiredQ) < QueueCap /\ expiredQ' = Append(expiredQ, r)
            ELSE UNCHANGED expiredQ
  /\ ppc' = "wait"
  /\ UNCHANGED <<pendingQ, finishedQ, unloadedN, loaded, nextId, refMu, loadedMu, preq, pvictim, ptodo,
                 cpc, crun, xpc, xmodel, xrun, rq, requeue, closes, viol>>

PWait ==
  /\ ppc = "wait" /\ unloadedN > 0
  /\ unloadedN' = unloadedN - 1
  /\ ppc' = "decide" /\ pvictim' = NoR
  /\ UNCHANGED <<pendingQ, finishedQ, expiredQ, loaded, run, nextId, refMu, loadedMu, preq, ptodo, cpc,
                 crun, xpc, xmodel, xrun, rq, requeue, closes, viol>>

\* ---------------------------------------------------- processCompleted (C)
CFinished ==
  /\ cpc = "idle" /\ finishedQ # <<>> /\ loadedMu = "free"
  /\ LET q == Head(finishedQ) r == loaded[ModelOf[q]] IN
       /\ finishedQ' = Tail(finishedQ)
       /\ IF r = NoR THEN UNCHANGED <<cpc, crun>>      \* "finished ... after model unloaded"
          ELSE cpc' = "fin" /\ crun' = r
  /\ UNCHANGED <<pendingQ, expiredQ, unloadedN, loaded, run, nextId, refMu, loadedMu, ppc, preq, pvictim,
                 ptodo, xpc, xmodel, xrun, rq, requeue, closes, viol>>

CFinBody ==
  /\ cpc = "fin" /\ refMu[crun] = "free"
  /\ LET r == crun nref == run[r].ref - 1 IN
       IF nref <= 0
         THEN IF run[r].dur <= 0
                THEN /\ Len(expiredQ) < QueueCap
                     /\ expiredQ' = Append(expiredQ, r)
                     /\ run' = [run EXCEPT ![r].ref = nref, ![r].timer = IF @ = "armed" THEN "none" ELSE @]
                ELSE /\ run' = [run EXCEPT ![r].ref = nref, ![r].timer = IF @ = "fired" THEN @ ELSE "armed"]
                     /\ UNCHANGED expiredQ
         ELSE run' = [run EXCEPT ![r].ref = nref] /\ UNCHANGED expiredQ
  /\ cpc' = "idle" /\ crun' = NoR
  /\ UNCHANGED <<pendingQ, finishedQ, unloadedN, loaded, nextId, refMu, loadedMu, ppc, preq, pvictim,
                 ptodo, xpc, xmodel, xrun, rq, requeue, closes, viol>>

\* keep-alive timer fires: the callback goroutine now wants refMu
TimerFire(r) ==
  /\ Allocated(r) /\ run[r].timer = "armed"
  /\ run' = [run EXCEPT ![r].timer = "fired"]
  /\ UNCHANGED <<pendingQ, finishedQ, expiredQ, unloadedN, loaded, nextId, refMu, loadedMu, ppc, preq,
                 pvictim, ptodo, cpc, crun, xpc, xmodel, xrun, rq, requeue, closes, viol>>

TimerRun(r) ==
  /\ Allocated(r) /\ run[r].timer = "fired" /\ refMu[r] = "free"
  /\ Len(expiredQ) < QueueCap
  /\ run' = [run EXCEPT ![r].timer = "none"]
  /\ expiredQ' = Append(expiredQ, r)
  /\ UNCHANGED <<pendingQ, finishedQ, unloadedN, loaded, nextId, refMu, loadedMu, ppc, preq, pvictim,
                 ptodo, cpc, crun, xpc, xmodel, xrun, rq, requeue, closes, viol>>

CExpired ==
  /\ cpc = "idle" /\ expiredQ # <<>>
  /\ LET r == Head(expiredQ) IN
       /\ refMu[r] = "free"
       /\ expiredQ' = Tail(expiredQ)
       /\ IF run[r].ref > 0
            THEN /\ requeue' = requeue \cup {r}          \* 10ms re-queue goroutine
                 /\ UNCHANGED <<cpc, crun, refMu>>
            ELSE /\ refMu' = [refMu EXCEPT ![r] = "C"]   \* keeps refMu, now wants loadedMu
                 /\ cpc' = "unload" /\ crun' = r
                 /\ UNCHANGED requeue
  /\ UNCHANGED <<pendingQ, finishedQ, unloadedN, loaded, run, nextId, loadedMu, ppc, preq, pvictim, ptodo,
                 xpc, xmodel, xrun, rq, closes, viol>>

Requeue(r) ==
  /\ r \in requeue /\ Len(expiredQ) < QueueCap
  /\ requeue' = requeue \ {r}
  /\ expiredQ' = Append(expiredQ, r)
  /\ UNCHANGED <<pendingQ, finishedQ, unloadedN, loaded, run, nextId, refMu, loadedMu, ppc, preq, pvictim,
                 ptodo, cpc, crun, xpc, xmodel, xrun, rq, closes, viol>>

\* unload(): Close if llama != nil, nil out fields; delete(s.loaded, runner.modelPath)  <-- by path
CUnload ==
  /\ cpc = "unload" /\ loadedMu = "free"
  /\ LET r == crun IN
       /\ closes' = [closes EXCEPT ![r] = IF run[r].alive THEN @ + 1 ELSE @]
       /\ run' = [run EXCEPT ![r].alive = FALSE, ![r].timer = IF @ = "armed" THEN "none" ELSE @]
       /\ loaded' = IF FixIdentityDelete /\ loaded[run[r].model] # r THEN loaded
                    ELSE [loaded EXCEPT ![run[r].model] = NoR]
       /\ refMu' = [refMu EXCEPT ![r] = "free"]
  /\ cpc' = "post"
  /\ UNCHANGED <<pendingQ, finishedQ, expiredQ, unloadedN, nextId, loadedMu, ppc, preq, pvictim, ptodo,
                 crun, xpc, xmodel, xrun, rq, requeue>>
  /\ viol' = IF run[crun].alive /\ InUse(crun) THEN viol \cup {"close_in_use"} ELSE viol

CPost ==
  /\ cpc = "post" /\ unloadedN < QueueCap
  /\ unloadedN' = unloadedN + 1
  /\ cpc' = "idle" /\ crun' = NoR
  /\ UNCHANGED <<pendingQ, finishedQ, expiredQ, loaded, run, nextId, refMu, loadedMu, ppc, preq, pvictim,
                 ptodo, xpc, xmodel, xrun, rq, requeue, closes, viol>>

\* ------------------------------------------------ expireRunner (keep_alive=0)
XStart(m) ==
  /\ AllowExplicitUnload /\ xpc = "idle" /\ loadedMu = "free"
  /\ (MaxHist = 0 \/ (Count("XStart") < 2 /\ loaded[m] # NoR))
  /\ IF loaded[m] = NoR THEN UNCHANGED <<xpc, xmodel, xrun, loadedMu>>
     ELSE /\ xpc' = "body" /\ xmodel' = m /\ xrun' = loaded[m]
          /\ loadedMu' = IF FixLockOrder THEN loadedMu ELSE "X"     \* repaired: loadedMu released before refMu
  /\ UNCHANGED <<pendingQ, finishedQ, expiredQ, unloadedN, loaded, run, nextId, refMu, ppc, preq, pvictim,
                 ptodo, cpc, crun, rq, requeue, closes, viol>>

XBody ==
  /\ xpc = "body" /\ refMu[xrun] = "free"
  /\ LET r == xrun IN
       /\ run' = [run EXCEPT ![r].timer = IF @ = "armed" THEN "none" ELSE @, ![r].dur = 0]
       /\ IF run[r].ref <= 0
            THEN Len(expiredQ) < QueueCap /\ expiredQ' = Append(expiredQ, r)
            ELSE UNCHANGED expiredQ
  /\ loadedMu' = IF loadedMu = "X" THEN "free" ELSE loadedMu
  /\ xpc' = "idle" /\ xmodel' = None /\ xrun' = NoR
  /\ UNCHANGED <<pendingQ, finishedQ, unloadedN, loaded, nextId, refMu, ppc, preq, pvictim, ptodo, cpc,
                 crun, rq, requeue, closes, viol>>

\* every step is recorded as a label (the replay driver forces gated steps in this order)
L(A, lab) == A /\ hist' = IF Len(hist) < MaxHist THEN Append(hist, lab) ELSE hist
Lab(a) == [a |-> a, q |-> None, r |-> 0, m |-> None]
Next ==
  \/ \E q \in Req : \/ L(Submit(q), [Lab("Submit") EXCEPT !.q = q])
                     \/ L(EndCtx(q), [Lab("EndCtx") EXCEPT !.q = q, !.r = IF rq[q].st \in {"granted", "failed", "done"} THEN 0 ELSE 1])
                     \/ L(FinPost(q), [Lab("FinPost") EXCEPT !.q = q])
  \/ L(PRecv, Lab("PRecv")) \/ L(PIgnoreUnloaded, Lab("PIgnoreUnloaded")) \/ L(PDecide, Lab("PDecide"))
  \* m = "pingfail": the runner was alive and its options matched, so it is the health check that sent the loop to "expire"
  \/ L(PNeedsReload, [Lab("PNeedsReload") EXCEPT !.m = IF ppc' = "expire" /\ run[pvictim].alive /\ run[pvictim].opt = OptOf[preq]
                                                        THEN "pingfail" ELSE None])
  \/ L(PUse, Lab("PUse")) \/ L(PFit, Lab("PFit")) \/ L(PUpdFree, Lab("PUpdFree"))
  \/ L(PLoad, Lab("PLoad")) \/ L(PVictim, Lab("PVictim")) \/ L(PExpire, Lab("PExpire")) \/ L(PWait, Lab("PWait"))
  \/ \E r \in RunnerId : \/ L(LoadOk(r), [Lab("LoadOk") EXCEPT !.r = r])
                          \/ L(LoadFail(r), [Lab("LoadFail") EXCEPT !.r = r])
                          \/ L(TimerFire(r), [Lab("TimerFire") EXCEPT !.r = r])
                          \/ L(TimerRun(r), [Lab("TimerRun") EXCEPT !.r = r])
                          \/ L(Requeue(r), [Lab("Requeue") EXCEPT !.r = r])
  \/ L(CFinished, Lab("CFinished")) \/ L(CFinBody, Lab("CFinBody")) \/ L(CExpired, Lab("CExpired"))
  \/ L(CUnload, Lab("CUnload")) \/ L(CPost, Lab("CPost"))
  \/ \E m \in Model : L(XStart(m), [Lab("XStart") EXCEPT !.m = m])
  \/ L(XBody, Lab("XBody"))

Spec == Init /\ [][Next]_vars

\* ------------------------------------------------------------- liveness (checked with MaxHist = 0, so hist never changes)
\* Weak fairness for every step of the scheduler's own goroutines and timers, for loads in flight (they
\* finish, one way or the other) and for the end of GRANTED requests (the requests ahead eventually
\* complete).  Nothing is assumed about the environment otherwise: submissions, cancellations of
\* waiting requests and explicit unloads may or may not happen.
F(A) == WF_vars(A /\ hist' = hist)
Fair ==
  /\ F(PRecv) /\ F(PIgnoreUnloaded) /\ F(PDecide) /\ F(PNeedsReload) /\ F(PUse) /\ F(PFit) /\ F(PUpdFree)
  /\ F(PLoad) /\ F(PVictim) /\ F(PExpire) /\ F(PWait)
  /\ F(CFinished) /\ F(CFinBody) /\ F(CExpired) /\ F(CUnload) /\ F(CPost) /\ F(XBody)
  /\ \A r \in RunnerId : F(LoadOk(r) \/ LoadFail(r)) /\ F(TimerFire(r)) /\ F(TimerRun(r)) /\ F(Requeue(r))
  /\ \A q \in Req : F(FinPost(q)) /\ F(rq[q].st = "granted" /\ EndCtx(q))
LiveSpec == Init /\ [][Next]_vars /\ Fair
\* C02: a request that was queued and is not cancelled gets its reply
Answered == \A q \in Req : (rq[q].st = "queued") ~> (rq[q].replies = 1 \/ rq[q].ctx = "done")
\* C02: once every request is over for good, every runner that was started is eventually shut down, for good
Drain == <>[](\A q \in Req : rq[q].st # "new" /\ rq[q].ctx = "done") => <>[](\A r \in RunnerId : ~Live(r))

\* ------------------------------------------------------------- properties
\* C01
NoCloseWhileInUse == "close_in_use" \notin viol
NoDeadGrant == "grant_dead" \notin viol
\* C01: closed at most once
CloseAtMostOnce == \A r \in RunnerId : closes[r] <= 1
\* C02: at most one reply
AtMostOneReply == \A q \in Req : rq[q].replies <= 1
\* C11: bound and uniqueness over runners that exist (started, not closed)
LiveRunners == {r \in RunnerId : Live(r)}
BoundedRunners == Cardinality(LiveRunners) <= MaxRunners
OnePerModel == \A a, b \in LiveRunners : run[a].model = run[b].model => a = b
\* every live runner is reachable from the loaded table (else it can never be closed)
NoOrphan == \A r \in LiveRunners : loaded[run[r].model] = r
RefNonNeg == \A r \in RunnerId : run[r].ref >= 0
\* hold-and-wait cycles between the two loops / an explicit unload
LockCycleXC == xpc = "body" /\ loadedMu = "X" /\ cpc = "unload" /\ refMu[xrun] = "C"
LockCyclePC == ppc = "updfree" /\ loadedMu = "PU" /\ cpc = "unload" /\ \E m \in Model : loaded[m] # NoR /\ refMu[loaded[m]] = "C"
NoLockCycle == ~LockCycleXC /\ ~LockCyclePC
\* behaviours are handed to the replay driver when they are full or when everything has come to rest
Quiet == /\ \A q \in Req : rq[q].st # "new" /\ rq[q].ctx = "done" /\ rq[q].fin # "armed"
         /\ pendingQ = <<>> /\ finishedQ = <<>> /\ expiredQ = <<>> /\ requeue = {}
         /\ ppc = "idle" /\ cpc = "idle" /\ xpc = "idle"
Emit == (MaxHist > 0 /\ (Len(hist) = MaxHist \/ (Quiet /\ Len(hist) > 12))) => PrintT(ToJson(hist))
\* as-pinned model: print the behaviours that reach a bad state (the witnesses of the findings)
Bad == viol # {} \/ ~(\A r \in {x \in RunnerId : Live(x)} : loaded[run[r].model] = r)
       \/ (xpc = "body" /\ loadedMu = "X" /\ cpc = "unload" /\ refMu[xrun] = "C")
EmitBad == Bad => PrintT(ToJson(hist))
NotBad == ~Bad
View == <<pendingQ, finishedQ, expiredQ, unloadedN, loaded, run, nextId, refMu, loadedMu,
          ppc, preq, pvictim, ptodo, cpc, crun, xpc, xmodel, xrun, rq, requeue, closes, viol>>
=============================================================================


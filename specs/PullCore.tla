--------------------------------- MODULE PullCore -------------------------------
(* C03 -- PullModel (server/images.go, server/download.go) against a registry    *)
(* and a CDN that misbehave.  One behaviour = a sequence of pull attempts for    *)
(* the same name; in every attempt some requests are answered with a fault.      *)
(* The published model has three blobs (1 = model layer, 2 = system layer,       *)
(* 3 = config), each downloaded as one part of two units.                        *)
(*                                                                              *)
(* Store state: final[b] in {absent, good, bad}, part[b] = units already in the  *)
(* partial file (0..2) and whether they are good, man in {absent, old, new}.     *)
(* An attempt follows PullModel: manifest; for every blob in order: cache hit    *)
(* (final exists -> no download and NO verification), else HEAD, redirect,       *)
(* chunk requests (a failed chunk is retried inside the attempt), rename;        *)
(* then verification of the blobs downloaded in this attempt (mismatch -> the    *)
(* file is removed and the attempt fails); manifest written last; old layers     *)
(* pruned afterwards.                                                            *)
EXTENDS Integers, Sequences, FiniteSets, FiniteSetsExt, TLC, Json

CONSTANTS VerifyStopsAtFirst,             \* TRUE: verification returns at the first mismatching blob (the pinned code)
          DupOverwritesSkipVerify,        \* TRUE (the pinned code): a manifest that lists a digest twice makes the second occurrence, a cache
                                          \*       hit, mark the blob as "not to be verified" although this attempt downloaded it
          VerifyOnFailure                 \* TRUE: an attempt that fails before the verification stage still verifies (and removes)
                                          \*       what it downloaded.  FALSE is the code: such blobs stay, unverified (known finding)

Blobs == 1..3
ManifestFaults == {"503", "404", "401-empty-realm", "401-no-quotes", "401-garbage", "empty-digest"}
HeadFaults == {"503", "short-length"}     \* short-length: the HEAD answer announces 7 bytes less than the blob has
RedirectFaults == {"503", "same-host"}
ChunkFaults == {"flip", "trunc1", "reset", "503short", "503long", "range-ignored"}
\* request slots of one attempt: manifest, per blob: head, redirect, first and second chunk request
\* ... and <<"v", 0>>: the caller gives up (cancels its context) when the pull announces the verification stage; the stage
\* does not look at the context, so in the code as it is this changes nothing -- which is what the model says
Slots == {<<"m", 0>>, <<"v", 0>>} \cup {<<c, b>> : c \in {"h", "r", "ca", "cb"}, b \in Blobs}
FaultsOf(s) == CASE s[1] = "m" -> ManifestFaults [] s[1] = "v" -> {"cancel"} [] s[1] = "h" -> HeadFaults [] s[1] = "r" -> RedirectFaults
                 [] OTHER -> ChunkFaults
NoPart == [done |-> 0, good |-> TRUE]
\* what one chunk request does to a partial file: <<units done, all good?, finished the part?>>
Chunk(p, f) ==
  CASE f = "ok"            -> [done |-> 2, good |-> p.good]
    [] f = "flip"          -> [done |-> 2, good |-> FALSE]
    [] f = "503long"       -> [done |-> 2, good |-> FALSE]                 \* the status of a chunk response is not looked at
    [] f = "range-ignored" -> [done |-> 2, good |-> p.good /\ p.done = 0] \* the whole body from byte 0: wrong when resuming
    [] f = "trunc1"        -> [done |-> IF p.done = 0 THEN 1 ELSE p.done, good |-> p.good]   \* progress kept, retried
    [] f \in {"reset", "503short"} -> p                                     \* nothing kept, retried

\* download of blob b under script f: the part after the first request, the retry, and further clean retries
Downloaded(p, f, b) ==
  LET p1 == Chunk(p, f[<<"ca", b>>])
      p2 == IF p1.done = 2 THEN p1 ELSE Chunk(p1, f[<<"cb", b>>])
  IN IF p2.done = 2 THEN p2 ELSE Chunk(p2, "ok")

\* one attempt, blob by blob: st = [final, part, fetched (blobs downloaded in this attempt), failed]
\* the blobs in the order the manifest names them; dup: the second layer is listed twice
Layout(dup) == IF dup THEN <<1, 2, 2, 3>> ELSE <<1, 2, 3>>
RECURSIVE FetchL(_, _, _, _)
FetchL(st, f, lay, i) ==
  IF i > Len(lay) \/ st.failed THEN st
  ELSE LET b == lay[i] IN
       IF st.final[b] # "absent"                                                        \* cache hit: skipVerify[digest] = true
         THEN FetchL([st EXCEPT !.fetched = IF DupOverwritesSkipVerify THEN @ \ {b} ELSE @], f, lay, i + 1)
       ELSE IF f[<<"h", b>>] = "503" /\ st.part[b].done = 0 /\ st.part[b] = NoPart THEN [st EXCEPT !.failed = TRUE]   \* HEAD only without part files
       ELSE IF f[<<"r", b>>] # "ok" THEN [st EXCEPT !.failed = TRUE]      \* 5xx, or a blob served without the redirect to another host
       ELSE LET p == Downloaded(st.part[b], f, b)
                \* a download planned from a too small announced size ends 7 bytes early: the file cannot have the digest
                short == f[<<"h", b>>] = "short-length" /\ st.part[b] = NoPart IN
            FetchL([st EXCEPT !.final[b] = IF p.good /\ ~short THEN "good" ELSE "bad", !.part[b] = NoPart, !.fetched = @ \cup {b}], f, lay, i + 1)
\* a manifest whose last layer has an empty digest: the layers before it are fetched, then the attempt fails
Fetch(st, f, dup) ==
  IF f[<<"m", 0>>] = "empty-digest" THEN [FetchL(st, f, SubSeq(Layout(dup), 1, Len(Layout(dup)) - 1), 1) EXCEPT !.failed = TRUE]
  ELSE FetchL(st, f, Layout(dup), 1)

\* one attempt as a function of the store c = [final, part, man]   -> the store after it and the reported outcome
AttemptResult(c, f, dup) ==
  IF f[<<"m", 0>>] \notin {"ok", "empty-digest"} THEN [final |-> c.final, part |-> c.part, man |-> c.man, outcome |-> "fail"]
  ELSE LET st == Fetch([final |-> c.final, part |-> c.part, fetched |-> {}, failed |-> FALSE], f, dup)
           badNew == {b \in st.fetched : st.final[b] = "bad"}
           \* the verification stage is reached only when every blob was fetched; it looks at what THIS attempt downloaded
           verified == IF st.failed THEN (IF VerifyOnFailure THEN badNew ELSE {})
                       ELSE IF VerifyStopsAtFirst /\ badNew # {} THEN {CHOOSE b \in badNew : \A x \in badNew : b <= x}
                       ELSE badNew
           \* mismatching files that were looked at are removed
           fin2 == [b \in Blobs |-> IF b \in verified THEN "absent" ELSE st.final[b]]
           ok == ~st.failed /\ badNew = {}
       IN [final |-> fin2, part |-> st.part, man |-> IF ok THEN "new" ELSE c.man, outcome |-> IF ok THEN "ok" ELSE "fail"]
CleanScript == [s \in Slots |-> "ok"]
===============================================================================

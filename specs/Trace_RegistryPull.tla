--------------------------- MODULE Trace_RegistryPull ---------------------------
(* C09 (pull half) -- judges what harness/server/internal/client/ollama/          *)
(* vf_registry_test.go recorded after every Registry.Pull attempt: the returned    *)
(* error, the small layer files, every unit of the big layer file (good / notgood  *)
(* / beyond the end of the file), its length, the chunk markers, what the name     *)
(* resolves to.                                                                    *)
(* VFBAD: the property is violated on the real cache.  VFDRIFT: the real client     *)
(* did something else than RegistryPullCore (TrustSize, StaleMarkers TRUE; CountOnly FALSE: *)
(* the code as it is) predicts for this plan and these faults.                     *)
EXTENDS RegistryPullCore, Json, IOUtils

VARIABLES l, nbad, m, prevlink
Trace == ndJsonDeserialize(IOEnv.VF_TRACE)
Rng(f) == {f[i] : i \in DOMAIN f}
Fresh(pre) == [small |-> [x \in {"s", "c"} |-> "absent"], big |-> [u \in Units |-> "none"], len |-> 0, marker |-> {},
               link |-> (IF pre = "old" THEN "old" ELSE "none"), outcome |-> "none"]
Init == l = 1 /\ nbad = 0 /\ m = Fresh("none") /\ prevlink = "none"

FOf(e) == [s \in Slots |-> IF \E x \in Rng(e.faults) : x.slot = s[1] /\ x.k = s[2]
                            THEN (CHOOSE x \in Rng(e.faults) : x.slot = s[1] /\ x.k = s[2]).f ELSE "ok"]
ObsComplete(e) == (\A u \in Units : e.big[u] = "good") /\ e.small.s = "good" /\ e.small.c = "good"
\* the model's big layer as the harness sees a file
Seen(c) == [u \in Units |-> IF c.big[u] = "good" THEN "good" ELSE IF u <= c.len THEN "notgood" ELSE "beyond"]

Bad(e) ==
     (IF e.err = "" /\ ~ObsComplete(e) THEN {"pull-succeeded-with-incomplete-or-wrong-layer"} ELSE {})
\cup (IF e.link = "new" /\ ~ObsComplete(e) THEN {"name-linked-to-incomplete-model"} ELSE {})
\cup (IF e.err # "" /\ e.link # prevlink THEN {"failed-pull-changed-what-the-name-resolves-to"} ELSE {})
\cup (IF e.link = "other" THEN {"name-linked-to-unknown-manifest"} ELSE {})

Drift(e, p) ==
     (IF (e.err = "") # (p.outcome = "ok") THEN {"outcome-differs-from-model"} ELSE {})
\cup (IF [x \in {"s", "c"} |-> e.small[x]] # p.small THEN {"small-layers-differ-from-model"} ELSE {})
\cup (IF [u \in Units |-> e.big[u]] # Seen(p) THEN {"big-layer-differs-from-model"} ELSE {})
\cup (IF {<<x[1], x[2]>> : x \in Rng(e.markers)} # p.marker THEN {"markers-differ-from-model"} ELSE {})
\cup (IF e.link # p.link THEN {"link-differs-from-model"} ELSE {})

Step ==
  /\ l <= Len(Trace) /\ l' = l + 1
  /\ LET e == Trace[l] IN
       IF e.ev = "reset" THEN m' = Fresh(e.pre) /\ prevlink' = (IF e.pre = "old" THEN "old" ELSE "none") /\ nbad' = nbad
       ELSE LET p == AttemptResult(m, e.plan, FOf(e))
                flags == Bad(e)
                d == Drift(e, p) IN
            /\ (flags # {}) => PrintT(<<"VFBAD", l, e.t, flags>>)
            /\ (d # {}) => PrintT(<<"VFDRIFT", l, e.t, d>>)
            /\ nbad' = IF flags # {} THEN nbad + 1 ELSE nbad
            \* follow the real cache where it can be read off, so that one drift does not cascade
            /\ m' = [p EXCEPT !.link = e.link]
            /\ prevlink' = e.link
Accepted == TLCGet("stats").diameter = Len(Trace) + 1
===============================================================================

-------------------------------- MODULE Store --------------------------------
(* C04 -- the model store at API granularity: manifests (name -> set of layers), *)
(* layer blobs, config blobs (one per layer set), with the scan-based garbage    *)
(* collection of layer.go / images.go / create.go.  Names come in spellings that *)
(* may differ only in letter case (Fold).  Operations: upload a blob, create from*)
(* files or FROM another model (optionally replacing the system layer), copy,    *)
(* delete, pull a published version, startup prune.                              *)
EXTENDS Integers, Sequences, FiniteSets, TLC, Json

CONSTANTS Names,        \* concrete spellings, e.g. {"a","A","b"}
          Fold,         \* [Names -> folded name]
          Ggufs, Systems, MaxOps, Versions,   \* Versions: [version -> set of layers] published by the registry
          Templates,    \* template texts a create request may carry (overrides)
          TemplGgufs,   \* GGUFs whose chat template ollama recognises: a create from them adds the autodetected template layer
                        \* "AT" and its parameter layer "AP" (server/model.go detectChatTemplate)
          CreateContinuesAfterFromError   \* TRUE = pinned code (no return after a parseFromModel error)

NoneM == [layers |-> {}, present |-> FALSE]
Layer == Ggufs \cup Systems \cup Templates \cup {"AT", "AP"}
IsSys(l) == l \in Systems
IsTempl(l) == l \in Templates \cup {"AT"}
Auto(g) == IF g \in TemplGgufs THEN {"AT", "AP"} ELSE {}

VARIABLES man, blobs, cfgs, ops, bad, hist     \* blobs: layer blobs; cfgs: config blobs (one per layer set)
vars == <<man, blobs, cfgs, ops, bad, hist>>

Init == man = [n \in Names |-> NoneM] /\ blobs = {} /\ cfgs = {} /\ ops = 0 /\ bad = {} /\ hist = <<>>

Listed == {n \in Names : man[n].present}
Refs(m) == UNION {m[n].layers : n \in {x \in Names : m[x].present}}
CRefs(m) == {m[n].layers : n \in {x \in Names : m[x].present}}

\* getExistingName at whole-name granularity: reuse the spelling that exists
Canon(n) == IF \E e \in Listed : Fold[e] = Fold[n] THEN CHOOSE e \in Listed : Fold[e] = Fold[n] ELSE n

\* remove each blob of ds that no manifest in m references (Layer.Remove / RemoveLayers)
GC(b, m, ds) == b \ {d \in ds : d \notin Refs(m)}
CGC(c, m, cs) == c \ {d \in cs : d \notin CRefs(m)}

Collateral(n, m2, b2, c2) ==   \* some other listed model changed or lost a blob it references
  \E o \in Listed \ {n} : m2[o] # man[o] \/ ~(man[o].layers \subseteq b2) \/ (man[o].layers \in cfgs /\ man[o].layers \notin c2)

Upload(g) == /\ g \in Ggufs /\ blobs' = blobs \cup {g} /\ UNCHANGED <<man, cfgs, bad>>

\* fresh: layers this request has just written as blobs (the autodetected template and its parameters)
DoCreate(n, baseLayers, fresh, sys, tmpl) ==
  LET old == man[n]
      removed == (IF sys = "none" THEN {} ELSE {l \in baseLayers : IsSys(l)}) \cup (IF tmpl = "none" THEN {} ELSE {l \in baseLayers : IsTempl(l)})
      b1 == GC(blobs \cup fresh, man, removed)              \* removeLayer -> Layer.Remove (manifest n still old)
      added == (IF sys = "none" THEN {} ELSE {sys}) \cup (IF tmpl = "none" THEN {} ELSE {tmpl})
      layers == (baseLayers \ removed) \cup added
      b2 == b1 \cup added
      c2 == cfgs \cup {layers}
      m2 == [man EXCEPT ![n] = [layers |-> layers, present |-> TRUE]]
      b3 == IF old.present THEN GC(b2, m2, old.layers) ELSE b2
      c3 == IF old.present THEN CGC(c2, m2, {old.layers}) ELSE c2
  IN /\ man' = m2 /\ blobs' = b3 /\ cfgs' = c3
     /\ bad' = bad \cup (IF Collateral(n, m2, b3, c3) THEN {"collateral"} ELSE {})

CreateFiles(n0, g, sys, tmpl) ==
  LET n == Canon(n0) IN
  IF g \in blobs THEN DoCreate(n, {g} \cup Auto(g), Auto(g), sys, tmpl) ELSE UNCHANGED <<man, blobs, cfgs, bad>>

CreateFrom(n0, src, sys, tmpl) ==          \* the FROM name is NOT canonicalised by the handler; "missing" cannot even be pulled
  LET n == Canon(n0) IN
  IF src \in Names /\ man[src].present /\ man[src].layers \subseteq blobs
    THEN DoCreate(n, man[src].layers, {}, sys, tmpl)
    ELSE IF CreateContinuesAfterFromError THEN DoCreate(n, {}, {}, sys, tmpl)     \* streaming: error sent, then continues
         ELSE UNCHANGED <<man, blobs, cfgs, bad>>

Copy(s0, d0) ==
  LET s == Canon(s0) d == Canon(d0) IN
  IF ~man[s].present \/ s = d THEN UNCHANGED <<man, blobs, cfgs, bad>>
  ELSE LET m2 == [man EXCEPT ![d] = man[s]] IN
       /\ man' = m2 /\ UNCHANGED <<blobs, cfgs>>
       /\ bad' = bad \cup (IF Collateral(d, m2, blobs, cfgs) THEN {"collateral"} ELSE {})

Delete(n0) ==
  LET n == Canon(n0) IN
  IF ~man[n].present THEN UNCHANGED <<man, blobs, cfgs, bad>>
  ELSE LET m2 == [man EXCEPT ![n] = NoneM]
           b2 == GC(blobs, m2, man[n].layers)
           c2 == CGC(cfgs, m2, {man[n].layers}) IN
       /\ man' = m2 /\ blobs' = b2 /\ cfgs' = c2
       /\ bad' = bad \cup (IF Collateral(n, m2, b2, c2) THEN {"collateral"} ELSE {})

Prune == /\ blobs' = blobs \cap Refs(man) /\ cfgs' = cfgs \cap CRefs(man) /\ UNCHANGED <<man, bad>>

\* pull a published version under a name: replace the tag, then drop the old layers nobody references
Pull(n0, v) ==
  LET n == Canon(n0)
      old == man[n]
      layers == Versions[v]
      m2 == [man EXCEPT ![n] = [layers |-> layers, present |-> TRUE]]
      b2 == blobs \cup layers
      c2 == cfgs \cup {layers}
      b3 == IF old.present THEN GC(b2, m2, old.layers) ELSE b2
      c3 == IF old.present THEN CGC(c2, m2, {old.layers}) ELSE c2
  IN /\ man' = m2 /\ blobs' = b3 /\ cfgs' = c3
     /\ bad' = bad \cup (IF Collateral(n, m2, b3, c3) THEN {"collateral"} ELSE {})

H(A, rec) == A /\ hist' = Append(hist, rec)
Op(o) == [op |-> o, n |-> "", m |-> "", g |-> "", s |-> "none", v |-> "", tp |-> "none"]
Next == /\ ops < MaxOps /\ ops' = ops + 1
        /\ \/ \E g \in Ggufs : H(Upload(g), [Op("upload") EXCEPT !.g = g])
           \/ \E n \in Names, g \in Ggufs, s \in Systems \cup {"none"}, tp \in Templates \cup {"none"} :
                 H(CreateFiles(n, g, s, tp), [Op("createfiles") EXCEPT !.n = n, !.g = g, !.s = s, !.tp = tp])
           \/ \E n, m \in Names \cup {"missing"}, s \in Systems \cup {"none"}, tp \in Templates \cup {"none"} :
                 n \in Names /\ H(CreateFrom(n, m, s, tp), [Op("createfrom") EXCEPT !.n = n, !.m = m, !.s = s, !.tp = tp])
           \/ \E a, b \in Names : H(Copy(a, b), [Op("copy") EXCEPT !.n = b, !.m = a])
           \/ \E n \in Names : H(Delete(n), [Op("delete") EXCEPT !.n = n])
           \/ \E n \in Names, v \in DOMAIN Versions : H(Pull(n, v), [Op("pull") EXCEPT !.n = n, !.v = v])
           \/ H(Prune, Op("prune"))

ListedComplete == \A n \in Listed : man[n].layers \subseteq blobs /\ man[n].layers \in cfgs
Showable == \A n \in Listed : \E l \in man[n].layers : l \in Ggufs          \* show needs a model layer
NoCaseTwins == \A a, b \in Listed : Fold[a] = Fold[b] => a = b
NoCollateral == "collateral" \notin bad
Emit == (ops = MaxOps) => PrintT(ToJson(hist))
View == <<man, blobs, cfgs, bad>>
==============================================================================

------------------------------- MODULE KvCells -------------------------------
(* C06 -- cell-level model of kvcache.Causal (kvcache/causal.go), one operator  *)
(* per function of the code, and its refinement of KvRef: the two machines take *)
(* the same calls in lockstep and TLC checks that the cells always represent     *)
(* exactly KvRef's live entries (AbsOk), that the per-sequence cell ranges the   *)
(* mask is built from cover every cell of the sequence (RangesCover), that the   *)
(* rows of the K/V tensors hold the data of the entry their cell describes       *)
(* (DataMatchesMeta: defrag moves rows in blocks and metadata cell by cell) and   *)
(* that CanResume computed from the cells is KvRef's (CanResumeAgrees).          *)
(*                                                                              *)
(*  meta[i] = [pos, seqs, id]   cacheCell (+ the id of the entry it describes)   *)
(*  dat[i]  = [id, k]           row i of the value / key tensors (V = entry id,  *)
(*                              K = position, moved by defrag, rotated by shift)  *)
(*  rng[s]  = [has, min, max]   cellRanges[s]                                    *)
(* Indices are 0-based as in the code.                                           *)
EXTENDS KvRef

CONSTANT DefragAsPinned     \* TRUE: defrag as at the pinned commit (metadata order reversed in coalesced moves)
VARIABLE cs

Big == 1000000
Idx == 0..(Cells - 1)
NoCell == [pos |-> 0, seqs |-> {}, id |-> 0]
NewRange == [has |-> TRUE, min |-> Big, max |-> 0]
NoRange == [has |-> FALSE, min |-> Big, max |-> 0]
MinOf(S) == IF S = {} THEN Big ELSE CHOOSE x \in S : \A y \in S : x <= y
MaxOf(S) == IF S = {} THEN 0 ELSE CHOOSE x \in S : \A y \in S : x >= y
Free(m, i) == m[i].seqs = {}
InRange(c, s, i) == c.rng[s].has /\ i >= c.rng[s].min /\ i <= c.rng[s].max
RangeOver(S) == [has |-> TRUE, min |-> MinOf(S), max |-> MaxOf(S)]

EmptyCells == [meta |-> [i \in Idx |-> NoCell], dat |-> [i \in Idx |-> [id |-> 0, k |-> 0]], rng |-> [s \in SeqIds |-> NoRange]]

\* ---------------------------------------------------------------- updateSlidingWindow
SlideWindow(c, b, pos) ==
  IF Window = 0 THEN c
  ELSE LET Low(s) == MinOf({pos[i] : i \in {j \in DOMAIN b : b[j] = s}})
           Drop(i, s) == s \in BatchSeqs(b) /\ InRange(c, s, i) /\ s \in c.meta[i].seqs /\ c.meta[i].pos < Low(s) - Window
       IN [c EXCEPT !.meta = [i \in Idx |-> [c.meta[i] EXCEPT !.seqs = {s \in @ : ~Drop(i, s)}]],
                    !.rng = [s \in SeqIds |-> IF s \in BatchSeqs(b) /\ c.rng[s].has
                                               THEN RangeOver({i \in Idx : InRange(c, s, i) /\ s \in c.meta[i].seqs /\ ~Drop(i, s)})
                                               ELSE c.rng[s]]]

\* ---------------------------------------------------------------- findStartLoc: the first run of free cells of length >= n
FindStart(m, n) ==
  MinOf({i \in Idx : (i = 0 \/ ~Free(m, i - 1)) /\ i + n - 1 <= Cells - 1 /\ \A j \in i..(i + n - 1) : Free(m, j)})
Full(m, n) == FindStart(m, n) = Big

\* ---------------------------------------------------------------- defrag: the loop of the code, one iteration of `dst` per call
RECURSIVE DLoop(_)
DLoop(d) ==
  IF d.dst >= d.src THEN d
  ELSE IF ~Free(d.meta, d.dst) THEN DLoop([d EXCEPT !.dst = @ + 1])
  ELSE LET cand == {s \in (d.dst + 1)..d.src : ~Free(d.meta, s)} IN
       IF cand = {} THEN [d EXCEPT !.src = d.dst]                      \* the inner loop ran src down to dst
       ELSE LET s == MaxOf(cand)
                m1 == [d.meta EXCEPT ![d.dst] = d.meta[s], ![s] = NoCell]
                contigFixed == s = d.ps - 1 /\ d.dst = d.pd + d.pl
                contigPinned == s = d.ps - d.pl /\ d.dst = d.pd + d.pl
                \* repaired code: the block copy keeps the source order, so the cell that now starts the source block
                \* is moved to the start of the destination block
                rotated == [i \in Idx |-> IF i = d.pd THEN m1[d.dst]
                                          ELSE IF i \in (d.pd + 1)..d.dst THEN m1[i - 1] ELSE m1[i]]
            IN IF d.pl > 0 /\ (IF DefragAsPinned THEN contigPinned ELSE contigFixed)
                 THEN DLoop([d EXCEPT !.meta = IF DefragAsPinned THEN m1 ELSE rotated, !.ps = s, !.pl = @ + 1, !.src = s, !.dst = @ + 1])
                 ELSE DLoop([d EXCEPT !.meta = m1, !.moves = IF d.pl > 0 THEN Append(@, <<d.ps, d.pd, d.pl>>) ELSE @,
                                      !.ps = s, !.pd = d.dst, !.pl = 1, !.src = s, !.dst = @ + 1])

\* moveCells(src, dst, len): rows src..src+len-1 are copied to dst..dst+len-1, in this order
RECURSIVE MoveRows(_, _)
MoveRows(dat, moves) ==
  IF moves = <<>> THEN dat
  ELSE LET mv == Head(moves) IN
       MoveRows([i \in Idx |-> IF i \in mv[2]..(mv[2] + mv[3] - 1) THEN dat[mv[1] + (i - mv[2])] ELSE dat[i]], Tail(moves))

Defrag(c) ==
  LET d == DLoop([meta |-> c.meta, moves |-> <<>>, ps |-> 0, pd |-> 0, pl |-> 0, src |-> Cells - 1, dst |-> 0])
      moves == IF d.pl > 0 THEN Append(d.moves, <<d.ps, d.pd, d.pl>>) ELSE d.moves
  IN [meta |-> d.meta, dat |-> MoveRows(c.dat, moves),
      rng |-> [s \in SeqIds |-> IF c.rng[s].has THEN RangeOver({i \in Idx : s \in d.meta[i].seqs}) ELSE c.rng[s]]]

\* ---------------------------------------------------------------- StartForward + Put
Place(c, loc, b, pos, ids) ==
  LET n == Len(b)
      At(i) == CHOOSE j \in 1..n : loc + j - 1 = i IN
  [meta |-> [i \in Idx |-> IF i \in loc..(loc + n - 1) THEN [pos |-> pos[At(i)], seqs |-> {b[At(i)]}, id |-> ids[At(i)]] ELSE c.meta[i]],
   dat  |-> [i \in Idx |-> IF i \in loc..(loc + n - 1) THEN [id |-> ids[At(i)], k |-> pos[At(i)]] ELSE c.dat[i]],
   rng  |-> [s \in SeqIds |-> IF s \in BatchSeqs(b)
                               THEN LET mine == {loc + j - 1 : j \in {x \in 1..n : b[x] = s}}
                                        old == IF c.rng[s].has THEN c.rng[s] ELSE NewRange
                                    IN [has |-> TRUE, min |-> MinOf(mine \cup {old.min}), max |-> MaxOf(mine \cup {old.max})]
                               ELSE c.rng[s]]]

\* -> [st, err]
ForwardC(c, b, pos, ids) ==
  LET c1 == SlideWindow(c, b, pos)
      n == Len(b) IN
  IF ~Full(c1.meta, n) THEN [st |-> Place(c1, FindStart(c1.meta, n), b, pos, ids), err |-> FALSE]
  ELSE LET c2 == Defrag(c1) IN
       IF ~Full(c2.meta, n) THEN [st |-> Place(c2, FindStart(c2.meta, n), b, pos, ids), err |-> FALSE]
       ELSE [st |-> c2, err |-> TRUE]

\* ---------------------------------------------------------------- CopyPrefix
CopyPrefixC(c, src, dst, n) ==
  LET Takes(i) == src \in (c.meta[i].seqs \ {dst}) /\ c.meta[i].pos < n IN
  [c EXCEPT !.meta = [i \in Idx |-> [c.meta[i] EXCEPT !.seqs = IF Takes(i) THEN (@ \ {dst}) \cup {dst} ELSE @ \ {dst}]],
            !.rng = [c.rng EXCEPT ![dst] = RangeOver({i \in Idx : Takes(i)})]]

\* ---------------------------------------------------------------- CanResume
CanResumeC(c, s, p) ==
  IF Window = 0 THEN TRUE
  ELSE IF ~c.rng[s].has THEN FALSE
  ELSE LET mine == {i \in Idx : InRange(c, s, i) /\ s \in c.meta[i].seqs}
           last == IF mine = {} THEN -1 ELSE MaxOf({c.meta[i].pos : i \in mine})
           pws == Max0(p - Window)
       IN /\ last # -1
          /\ pws >= Max0(last - Window)
          /\ Cardinality({i \in mine : c.meta[i].pos >= pws /\ c.meta[i].pos < p}) = p - pws

\* ---------------------------------------------------------------- Remove (and shift): the loop over the cells stops at the first
\* cell that would have to be shifted but is shared; what was changed before stays changed, the range is not updated
RemoveC(c, s, b, e) ==
  LET mid == e # Inf
      off == IF mid THEN b - e ELSE 0
      Mine(i) == s \in c.meta[i].seqs
      Gone(i) == Mine(i) /\ c.meta[i].pos >= b /\ c.meta[i].pos < e
      Moves(i) == Mine(i) /\ ~Gone(i) /\ c.meta[i].pos >= e
      stop == MinOf({i \in Idx : Moves(i) /\ c.meta[i].seqs # {s}})          \* Big: no shared cell in the way
      Done(i) == i < stop
      m1 == [i \in Idx |-> IF ~Done(i) THEN c.meta[i]
                           ELSE IF Gone(i) THEN [c.meta[i] EXCEPT !.seqs = @ \ {s}]
                           ELSE IF Moves(i) THEN [c.meta[i] EXCEPT !.pos = @ + off] ELSE c.meta[i]]
      kept == {i \in Idx : Mine(i) /\ ~Gone(i)}
  IN IF stop # Big THEN [st |-> [c EXCEPT !.meta = m1], err |-> TRUE]
     ELSE IF kept = {} THEN [st |-> [c EXCEPT !.meta = m1, !.rng = [c.rng EXCEPT ![s] = NoRange]], err |-> FALSE]
     ELSE LET r1 == RangeOver(kept)
              c1 == [c EXCEPT !.meta = m1, !.rng = [c.rng EXCEPT ![s] = r1]]
          IN IF ~mid THEN [st |-> c1, err |-> FALSE]
             ELSE IF ~CanShift THEN [st |-> c1, err |-> TRUE]
             ELSE [st |-> [c1 EXCEPT !.dat = [i \in Idx |-> IF i >= r1.min /\ i <= r1.max /\ s \in m1[i].seqs /\ m1[i].pos >= b
                                                              THEN [c1.dat[i] EXCEPT !.k = @ + off] ELSE c1.dat[i]]],
                   err |-> FALSE]
Erase(c, s) == RemoveC(c, s, 0, Inf).st

\* ---------------------------------------------------------------- lockstep with KvRef
CInit == Init /\ cs = EmptyCells
LFwd(b) ==
  /\ Fwd(b)
  /\ LET n == Len(b) IN
     cs' = ForwardC(cs, b, [i \in 1..n |-> PosOf(ref, b, i)], [i \in 1..n |-> nextId + i - 1]).st
LCopy(src, dst, n) ==
  /\ Copy(src, dst, n)
  /\ LET c1 == CopyPrefixC(cs, src, dst, n) IN cs' = IF CanResumeC(c1, dst, n) THEN c1 ELSE Erase(c1, dst)
LRmTail(s, b) ==
  /\ RmTail(s, b)
  /\ cs' = IF b = 0 \/ CanResumeC(cs, s, b) THEN RemoveC(cs, s, b, Inf).st ELSE Erase(cs, s)
LRmMid(s, b, e) ==
  /\ RmMid(s, b, e)
  /\ LET r == RemoveC(cs, s, b, e) IN cs' = IF r.err THEN Erase(r.st, s) ELSE r.st
LQuery(s, p) == Query(s, p) /\ UNCHANGED cs
CNext ==
  /\ Len(hist) < MaxOps
  /\ \/ \E b \in Batches : LFwd(b)
     \/ \E s, t \in SeqIds, n \in 1..Cells : LCopy(s, t, n)
     \/ \E s \in SeqIds, b \in 0..Cells : LRmTail(s, b)
     \/ \E s \in SeqIds, b \in 0..Cells, e \in 1..Cells : LRmMid(s, b, e)
CSpec == CInit /\ [][CNext]_<<vars, cs>>

\* ---------------------------------------------------------------- refinement invariants
Abs(c) == {[id |-> c.meta[i].id, pos |-> c.meta[i].pos, seqs |-> c.meta[i].seqs] : i \in {j \in Idx : ~Free(c.meta, j)}}
AbsOk == Abs(cs) = {[id |-> e.id, pos |-> e.pos, seqs |-> e.seqs] : e \in Live(ref)}
\* an entry occupies one cell
OneCellPerEntry == \A i, j \in Idx : (~Free(cs.meta, i) /\ ~Free(cs.meta, j) /\ cs.meta[i].id = cs.meta[j].id) => i = j
RangesCover == \A s \in SeqIds : \A i \in Idx : s \in cs.meta[i].seqs => InRange(cs, s, i)
DataMatchesMeta == \A i \in Idx : ~Free(cs.meta, i) => cs.dat[i] = [id |-> cs.meta[i].id, k |-> cs.meta[i].pos]
CanResumeAgrees == \A s \in SeqIds : \A p \in 0..(SLen(ref, s) + 1) : CanResumeC(cs, s, p) = CanResumeF(ref, s, p)
CView == <<ref, cs, Len(hist)>>
==============================================================================

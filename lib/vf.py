"""Shared machinery for the /verif checks (python3 stdlib only).

  * toolchain wrapper: builds/tests packages of REPO's *current working tree* with the
    harness files of /verif/harness injected through `go test -overlay`
  * TLC runner: every run happens in a private scratch copy of /verif/specs
  * evidence writer, known-findings file, verdict/exit protocol
"""
import contextlib
import json
import os
import re
import shutil
import subprocess
import sys
import tempfile
import time

ROOT = os.path.dirname(os.path.dirname(os.path.abspath(__file__)))
REPO = os.environ.get("VF_REPO", "/repo")
SPECS = os.path.join(ROOT, "specs")
HARNESS = os.path.join(ROOT, "harness")
EVIDENCE = os.environ.get("VF_EVIDENCE_DIR") or os.path.join(ROOT, "evidence")   # calibration runs on changed trees write elsewhere
FINDINGS_FILE = os.path.join(ROOT, "known_findings.json")
TLA_CP = "/opt/veriftools/tla/tla2tools.jar:/opt/veriftools/tla/CommunityModules-deps.jar"
NCPU = os.cpu_count() or 4

GO_CANDIDATES = [
    "/root/go/pkg/mod/golang.org/toolchain@v0.0.1-go1.24.0.linux-amd64/bin/go",
    "/opt/veriftools/go1.26.8/bin/go",
    "/usr/local/bin/go1.26.8",
]

EXIT_PASS, EXIT_VIOLATION, EXIT_INCONCLUSIVE = 0, 1, 2


class Inconclusive(Exception):
    """The check could not decide (harness does not build, tool died, timeout...)."""


def log(*a):
    print(*a, file=sys.stderr, flush=True)


def go_bin():
    for c in GO_CANDIDATES:
        if os.path.exists(c):
            return c
    return "go"


def go_env(extra=None):
    env = dict(os.environ)
    env.update(
        GOFLAGS="-mod=mod",
        GOPROXY="off",
        GOSUMDB="off",
        GOTOOLCHAIN="local",
        GONOSUMDB="*",
        GONOSUMCHECK="1",
    )
    env.pop("GOWORK", None)
    if extra:
        env.update({k: str(v) for k, v in extra.items()})
    return env


@contextlib.contextmanager
def scratch(prefix="vf-"):
    d = tempfile.mkdtemp(prefix=prefix, dir=os.environ.get("VF_TMP", "/tmp"))
    try:
        yield d
    finally:
        if not os.environ.get("VF_KEEP"):
            shutil.rmtree(d, ignore_errors=True)
        else:
            log("kept scratch", d)


def overlay_file(workdir, mapping):
    """mapping: {path relative to REPO: absolute source path under /verif/harness}"""
    rep = {os.path.join(REPO, k): v for k, v in mapping.items()}
    p = os.path.join(workdir, "overlay.json")
    with open(p, "w") as f:
        json.dump({"Replace": rep}, f)
    return p


def harness_overlay(pkg_dirs):
    """Map every file below /verif/harness/<pkg dir> into REPO/<pkg dir>/ (virtually)."""
    m = {}
    for d in pkg_dirs:
        src = os.path.join(HARNESS, d)
        for fn in sorted(os.listdir(src)):
            if fn.endswith(".go"):
                m[os.path.join(d, fn)] = os.path.join(src, fn)
    return m


def go_test(pkg, run, workdir, overlay_dirs, env=None, tags="verif", race=False, timeout=900,
            extra_args=(), count=1, test_timeout=None):
    """Run `go test` inside REPO with the harness overlay. Returns (rc, combined output)."""
    ov = overlay_file(workdir, harness_overlay(overlay_dirs))
    cmd = [go_bin(), "test", "-overlay", ov, "-tags", tags, "-count", str(count), "-vet=off",
           "-run", run]
    if race:
        cmd.append("-race")
    cmd += ["-timeout", test_timeout or f"{int(timeout)}s"]
    cmd += list(extra_args)
    cmd.append(pkg)
    t0 = time.time()
    try:
        p = subprocess.run(cmd, cwd=REPO, env=go_env(env), stdout=subprocess.PIPE,
                           stderr=subprocess.STDOUT, timeout=timeout + 120, text=True,
                           errors="replace")
    except subprocess.TimeoutExpired as e:
        raise Inconclusive(f"go test timed out after {timeout}s: {' '.join(cmd)}") from e
    log(f"[go test {pkg} -run {run}] rc={p.returncode} {time.time()-t0:.1f}s")
    return p.returncode, p.stdout


def go_test_binary(pkg, out_path, workdir, overlay_dirs, tags="verif", race=False, timeout=900):
    """Compile the test binary of pkg (with overlay) to out_path."""
    ov = overlay_file(workdir, harness_overlay(overlay_dirs))
    cmd = [go_bin(), "test", "-overlay", ov, "-tags", tags, "-vet=off", "-c", "-o", out_path]
    if race:
        cmd.append("-race")
    cmd.append(pkg)
    p = subprocess.run(cmd, cwd=REPO, env=go_env(), stdout=subprocess.PIPE,
                       stderr=subprocess.STDOUT, timeout=timeout, text=True, errors="replace")
    if p.returncode != 0:
        raise Inconclusive("harness does not build against the current tree:\n" + p.stdout[-4000:])
    return out_path


def build_failed(out):
    return ("[build failed]" in out) or ("[setup failed]" in out) or re.search(
        r"^# github.com/ollama", out, re.M) is not None and "FAIL" in out and "--- FAIL" not in out


# ----------------------------------------------------------------------------- TLC

TLC_STATS = re.compile(r"(\d+) states generated, (\d+) distinct states found, (\d+) states left")


def copy_specs(dst):
    for fn in os.listdir(SPECS):
        if fn.endswith((".tla", ".cfg")):
            shutil.copy(os.path.join(SPECS, fn), dst)


def tlc(module, cfg, workdir, workers=None, env=None, timeout=900, simulate=None, depth=None,
        seed=None, extra=(), heap="8g", deadlock=None, dfs=False):
    """Run TLC on specs/<module>.tla with specs/<cfg> inside workdir (a scratch dir).
    Returns dict(rc, out, generated, distinct, left, wall_s, ok)."""
    if not os.path.exists(os.path.join(workdir, module + ".tla")):
        copy_specs(workdir)
    meta = tempfile.mkdtemp(prefix="meta-", dir=workdir)
    if str(workers) == "1":
        jopts = [f"-Xmx{heap}", "-Xss512m", "-XX:+UseSerialGC"]
    else:
        jopts = [f"-Xmx{heap}", "-Xss512m", "-XX:+UseParallelGC", "-XX:ParallelGCThreads=4"]
    if dfs:
        jopts.append("-Dtlc2.tool.queue.IStateQueue=StateDeque")
    jopts.append(f"-Djava.io.tmpdir={meta}")       # TLC unpacks its standard modules into a temp directory per run
    cmd = ["java"] + jopts + ["-cp", TLA_CP, "tlc2.TLC", "-metadir", meta, "-config", cfg,
                              "-workers", str(workers or "auto"), "-noGenerateSpecTE"]
    if simulate:
        cmd += ["-simulate", simulate]
        if depth:
            cmd += ["-depth", str(depth)]
    if seed is not None:
        cmd += ["-seed", str(seed)]
    if deadlock is False:
        cmd += ["-deadlock"]
    cmd += list(extra)
    cmd.append(module + ".tla")
    e = dict(os.environ)
    e.pop("JAVA_TOOL_OPTIONS", None)
    if env:
        e.update({k: str(v) for k, v in env.items()})
    t0 = time.time()
    try:
        p = subprocess.run(cmd, cwd=workdir, env=e, stdout=subprocess.PIPE,
                           stderr=subprocess.STDOUT, timeout=timeout, text=True, errors="replace")
        rc, out = p.returncode, p.stdout
    except subprocess.TimeoutExpired as ex:
        out = (ex.stdout or b"")
        if isinstance(out, bytes):
            out = out.decode(errors="replace")
        rc = -9
    wall = time.time() - t0
    shutil.rmtree(meta, ignore_errors=True)
    res = dict(rc=rc, out=out, wall_s=wall, generated=0, distinct=0, left=0, cmd=" ".join(cmd))
    ms = TLC_STATS.findall(out)
    if ms:
        g, d, l = ms[-1]
        res.update(generated=int(g), distinct=int(d), left=int(l))
    res["ok"] = rc == 0 and "Model checking completed. No error has been found." in out
    res["timeout"] = rc == -9
    log(f"[tlc {module}/{cfg}] rc={rc} gen={res['generated']} distinct={res['distinct']} "
        f"{wall:.1f}s")
    return res


def apalache(module, workdir, init, inv, length, timeout=600):
    """apalache-mc check --init=<init> --inv=<inv> --length=<length>; returns dict(ok, error_found, out)."""
    if not os.path.exists(os.path.join(workdir, module + ".tla")):
        copy_specs(workdir)
    out_dir = tempfile.mkdtemp(prefix="apa-", dir=workdir)
    cmd = ["apalache-mc", "check", f"--init={init}", f"--inv={inv}", f"--length={length}", f"--out-dir={out_dir}", module + ".tla"]
    t0 = time.time()
    try:
        p = subprocess.run(cmd, cwd=workdir, stdout=subprocess.PIPE, stderr=subprocess.STDOUT, timeout=timeout, text=True, errors="replace")
        out, rc = p.stdout, p.returncode
    except (subprocess.TimeoutExpired, FileNotFoundError) as ex:
        raise Inconclusive(f"apalache-mc did not finish ({ex.__class__.__name__}) on {module} {init} => {inv}")
    shutil.rmtree(out_dir, ignore_errors=True)
    log(f"[apalache {module} {init} => {inv} length={length}] rc={rc} {time.time()-t0:.1f}s")
    return dict(ok=("The outcome is: NoError" in out and rc == 0), error_found="The outcome is: Error" in out, out=out)


def tlc_must_pass(res, what):
    """Design-level model check of our own spec: a failure here is never a code violation."""
    if res["timeout"]:
        raise Inconclusive(f"TLC timed out on {what}")
    if not res["ok"]:
        raise Inconclusive(f"TLC did not pass on {what} (specification problem):\n" + res["out"][-3000:])


def printed_json(out):
    """Values printed with PrintT(ToJson(x)) appear as quoted TLA+ strings, one per line."""
    vals = []
    for line in out.splitlines():
        line = line.strip()
        if len(line) > 2 and line[0] == '"' and line[-1] == '"' and line[1] in "[{":
            try:
                vals.append(json.loads(json.loads(line)))
            except Exception:
                try:
                    vals.append(json.loads(line[1:-1].replace('\\"', '"').replace("\\\\", "\\")))
                except Exception:
                    pass
    return vals


def printed_tuples(out, tag):
    """Lines printed by PrintT(<<"tag", ...>>) -> list of raw strings."""
    res = []
    pat = re.compile(r'^<<"' + re.escape(tag) + r'"(.*)>>$')
    for line in out.splitlines():
        m = pat.match(line.strip())
        if m:
            res.append(m.group(1).lstrip(", "))
    return res


# ----------------------------------------------------------------------------- findings


def load_findings(prop):
    if not os.path.exists(FINDINGS_FILE):
        return []
    with open(FINDINGS_FILE) as f:
        data = json.load(f)
    return [x for x in data.get("findings", []) if x.get("property") == prop and x.get("status") == "known"]


# ----------------------------------------------------------------------------- evidence


def write_evidence(prop, tier, seed, level, coverage, wall_s, violations=0, assumptions=()):
    os.makedirs(EVIDENCE, exist_ok=True)
    ev = dict(property_id=prop, tier=tier, seed=int(seed), level=level, coverage=coverage,
              assumptions=list(assumptions), wall_s=round(float(wall_s), 2), violations=int(violations))
    tmp = os.path.join(EVIDENCE, f".{prop}.json.tmp")
    with open(tmp, "w") as f:
        json.dump(ev, f, indent=1, sort_keys=True, default=str)
    os.replace(tmp, os.path.join(EVIDENCE, f"{prop}.json"))
    return ev


def save_replay(prop, name, payload):
    d = os.path.join(os.environ.get("VF_REPLAY_DIR") or os.path.join(ROOT, "replays"), prop)
    os.makedirs(d, exist_ok=True)
    p = os.path.join(d, name)
    with open(p, "w") as f:
        if isinstance(payload, str):
            f.write(payload)
        else:
            json.dump(payload, f, indent=1, default=str)
    return p


class Result:
    """Collects what a check found and turns it into the exit protocol."""

    def __init__(self, prop):
        self.prop = prop
        self.violations = []   # (what, replay path)
        self.known = []        # text
        self.notes = []

    def violation(self, what, replay):
        self.violations.append((what, replay))

    def known_finding(self, text):
        if text not in self.known:
            self.known.append(text)

    def note(self, text):
        self.notes.append(text)

    def finish(self):
        for n in self.notes:
            print("NOTE:", n)
        for k in self.known:
            print(f"KNOWN-FINDING: property={self.prop} {k}")
        if self.violations:
            seen = set()
            for what, replay in self.violations:
                if replay in seen:
                    continue
                seen.add(replay)
                print(f"VIOLATION property={self.prop} replay={replay}")
                print(f"  what: {what}")
            return EXIT_VIOLATION
        print(f"PASS property={self.prop}")
        return EXIT_PASS


# ----------------------------------------------------------------------------- pipeline helpers


def shared_files(workdir, items):
    """items: [(repo pkg dir, package name, template file under harness/_shared)] ->
    overlay mapping with the package clause substituted."""
    m = {}
    for pkgdir, pkgname, tmpl in items:
        src = os.path.join(HARNESS, "_shared", tmpl)
        txt = open(src).read().replace("package PKGNAME", "package " + pkgname)
        base = tmpl.replace(".tmpl", "")
        if pkgname.endswith("_test") or base.endswith("_test.go"):
            fn = base
        else:
            fn = base.replace(".go", "_test.go")   # test-only file of that package
        dst = os.path.join(workdir, pkgdir.replace("/", "_") + "_" + fn)
        with open(dst, "w") as f:
            f.write(txt)
        m[os.path.join(pkgdir, "vf_shared_" + fn)] = dst
    return m


def go_test2(pkg, run, workdir, mapping, env=None, tags="verif", race=False, timeout=900,
             extra_args=()):
    """like go_test but with an explicit overlay mapping {repo-relative path: source}."""
    ov = overlay_file(workdir, mapping)
    cmd = [go_bin(), "test", "-overlay", ov, "-tags", tags, "-count", "1", "-vet=off", "-v", "-run", run,
           "-timeout", f"{int(timeout)}s"]
    if race:
        cmd.append("-race")
    cmd += list(extra_args)
    cmd.append(pkg)
    t0 = time.time()
    try:
        p = subprocess.run(cmd, cwd=REPO, env=go_env(env), stdout=subprocess.PIPE,
                           stderr=subprocess.STDOUT, timeout=timeout + 120, text=True,
                           errors="replace")
    except subprocess.TimeoutExpired as e:
        raise Inconclusive(f"go test timed out after {timeout}s") from e
    log(f"[go test {pkg} -run {run}] rc={p.returncode} {time.time()-t0:.1f}s")
    if p.returncode != 0 and "[build failed]" in p.stdout or "[setup failed]" in p.stdout:
        raise Inconclusive("harness does not build against the current tree:\n" + p.stdout[-3000:])
    return p.returncode, p.stdout


def write_cfg(workdir, name, constants, body):
    """constants: dict name -> TLA+ text of the value (or '<- X' substitution)."""
    lines = ["CONSTANTS"]
    for k, v in constants.items():
        v = str(v)
        lines.append(f"  {k} {v}" if v.startswith("<-") else f"  {k} = {v}")
    lines.append(body.strip())
    p = os.path.join(workdir, name)
    with open(p, "w") as f:
        f.write("\n".join(lines) + "\n")
    return name


def tla_set(xs):
    return "{" + ", ".join(str(x) for x in xs) + "}"


def tla_bool(b):
    return "TRUE" if b else "FALSE"


def gen_simulate(module, cfg, workdir, num, depth, seed, timeout=600, workers=1):
    """tlc -simulate; behaviours are the JSON values printed from the CONSTRAINT."""
    res = tlc(module, cfg, workdir, workers=workers, simulate=f"num={num}", depth=depth, seed=seed,
              timeout=timeout, deadlock=False)
    vals = printed_json(res["out"])
    if not vals and res["rc"] not in (0,):
        raise Inconclusive(f"behaviour generation failed for {module}/{cfg}:\n" + res["out"][-3000:])
    return vals, res


def gen_exhaustive(module, cfg, workdir, timeout=1800, workers=None):
    res = tlc(module, cfg, workdir, workers=workers, timeout=timeout, deadlock=False)
    vals = printed_json(res["out"])
    if res["timeout"]:
        raise Inconclusive(f"exhaustive behaviour generation timed out for {module}/{cfg}")
    if not res["ok"]:
        raise Inconclusive(f"behaviour generation failed for {module}/{cfg}:\n" + res["out"][-3000:])
    return vals, res


BAD_RE = re.compile(r'<<\s*"(VFBAD|VFDRIFT)",\s*(\d+),\s*("[^"]*"|[^,\s]+),\s*(\{[^}]*\})\s*>>', re.S)


def validate_trace(module, cfg, trace_path, workdir, timeout=1800, env=None, heap="12g"):
    """Run a trace specification over an NDJSON trace file.  Returns
    dict(accepted, bad=[(line, trace id, flags)], drift=[...], out, wall_s)."""
    e = {"VF_TRACE": trace_path}
    if env:
        e.update(env)
    res = tlc(module, cfg, workdir, workers=1, env=e, timeout=timeout, deadlock=False, heap=heap)
    bad, drift = [], []
    for m in BAD_RE.finditer(res["out"]):
        kind, ln, tid, flags = m.groups()
        fl = sorted(x.strip().strip('"') for x in flags.strip("{}").split(",") if x.strip())
        (bad if kind == "VFBAD" else drift).append((int(ln), tid.strip().strip('"'), fl))
    if res["timeout"]:
        raise Inconclusive(f"trace validation timed out ({module})")
    accepted = res["ok"]
    if not accepted and not bad:
        raise Inconclusive(f"trace validation did not complete ({module}):\n" + res["out"][-3000:])
    res.update(accepted=accepted, bad=bad, drift=drift)
    return res


def read_ndjson(path):
    out = []
    with open(path) as f:
        for line in f:
            line = line.strip()
            if line:
                out.append(json.loads(line))
    return out


def split_traces(records, key="ev", reset="reset"):
    """-> list of (first line number (1-based), [records])"""
    traces, cur, start = [], None, 0
    for i, r in enumerate(records, 1):
        if r.get(key) == reset:
            if cur is not None:
                traces.append((start, cur))
            cur, start = [], i
        if cur is None:
            cur, start = [], i
        cur.append(r)
    if cur:
        traces.append((start, cur))
    return traces


# ----------------------------------------------------------------------------- generic case pipeline

TRACE_CFG = """
INIT Init
NEXT Step
POSTCONDITION Accepted
CHECK_DEADLOCK FALSE
"""


def load_witnesses(prop):
    p = os.path.join(ROOT, "findings", f"{prop}_witnesses.ndjson")
    out = []
    if os.path.exists(p):
        for line in open(p):
            if line.strip():
                out.append(json.loads(line))
    return out


def dedupe(items):
    seen, out = set(), []
    for x in items:
        k = json.dumps(x, sort_keys=True)
        if k not in seen:
            seen.add(k)
            out.append(x)
    return out


def replay_and_validate(wd, cases, pkg, test, overlay_dirs, trace_module, shared=(), env=None,
                        go_timeout=900, tlc_timeout=1800, race=False, trace_env=None, trace_constants=""):
    """cases -> VF_IN ; go harness -> VF_OUT ; Trace spec validation.  Returns (records, validation)."""
    inp = os.path.join(wd, "cases.ndjson")
    with open(inp, "w") as f:
        for c in cases:
            f.write(json.dumps(c) + "\n")
    trace = os.path.join(wd, "trace.ndjson")
    mapping = harness_overlay(overlay_dirs)
    if shared:
        mapping.update(shared_files(wd, shared))
    e = dict(VF_IN=inp, VF_OUT=trace)
    if env:
        e.update(env)
    rc, out = go_test2(pkg, f"^{test}$", wd, mapping, env=e, timeout=go_timeout, race=race)
    if rc != 0 or "VF replayed=" not in out:
        raise Inconclusive(f"harness {test} failed:\n" + out[-3000:])
    with open(os.path.join(wd, trace_module + ".cfg"), "w") as f:
        f.write(trace_constants + TRACE_CFG)
    v = validate_trace(trace_module, trace_module + ".cfg", trace, wd, timeout=tlc_timeout, env=trace_env)
    return read_ndjson(trace), v, out

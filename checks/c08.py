"""C08 -- blob cache entries of the right size have the right content.

BlobCache.tla: writers of one blob step by step (sources that misbehave, crashes, concurrency);
model-checked in three configurations (sequential + all faults + crashes: must hold; concurrent good
writers + crashes: must hold; concurrent with a faulty writer: the known design limitation).
TLC-generated schedules are forced on the real DiskCache with gated readers; real processes are
killed with strace injection; BlobApi.tla generates sequential Put/Link/Unlink/Resolve histories.
Trace_BlobCache.tla judges every recorded file state / result.
"""
import json
import os
import time

import vf

PROP = "C08"
ALLK = '{"good", "short", "long", "corrupt", "err"}'
MC_BODY = """
INIT Init
NEXT Next
VIEW View
INVARIANT SizeImpliesContent
INVARIANT PutThenGet
INVARIANT FaultySourceFails
CHECK_DEADLOCK FALSE
"""
GEN_BODY = """
INIT Init
NEXT Next
CONSTRAINT Emit
CHECK_DEADLOCK FALSE
"""
API_MC = """
INIT Init
NEXT Next
INVARIANT LinkedExists
CONSTRAINT Emit
CHECK_DEADLOCK FALSE
"""


def wconst(size, writers, kinds, crashes, conc):
    return {"Size": size, "Writers": vf.tla_set(range(1, writers + 1)), "Kinds": kinds, "MaxCrashes": crashes,
            "Concurrent": vf.tla_bool(conc)}


def run(tier="quick", seed=1, replay=None):
    t0 = time.time()
    res = vf.Result(PROP)
    quick = tier == "quick"
    cov = dict(states=0, transitions=0, traces_validated_against_impl=0, samples=[], evaluations=0,
               distinct_nontrivial=0, configs=[])
    with vf.scratch("vf-c08-") as wd:
        if replay:
            behaviours = [json.loads(l) for l in open(replay) if l.strip()]
        else:
            behaviours = []
            # ---- design level
            for name, c in (("sequential-all-faults-crashes", wconst(3, 3, ALLK, 2, False)),
                            ("concurrent-good-crashes", wconst(3, 3 if not quick else 2, '{"good"}', 2, True))):
                cfg = vf.write_cfg(wd, f"MC_Blob_{name}.cfg", c, MC_BODY)
                r = vf.tlc("BlobCache", cfg, wd, timeout=1800)
                vf.tlc_must_pass(r, f"BlobCache {name}")
                cov["states"] += r["distinct"]
                cov["transitions"] += r["generated"]
                cov["configs"].append(dict(config=name, distinct=r["distinct"], generated=r["generated"]))
            # the known design limitation must still be a counterexample of the model (finding re-confirmed)
            cfg = vf.write_cfg(wd, "MC_Blob_known.cfg", wconst(2, 2, '{"good", "err"}', 0, True), MC_BODY)
            r = vf.tlc("BlobCache", cfg, wd, timeout=600)
            cov["configs"].append(dict(config="concurrent-faulty (expected counterexample)",
                                       violated="SizeImpliesContent is violated" in r["out"]))
            # ---- schedules for replay
            tid = 0
            gens = [("seq", wconst(3, 3, ALLK, 1, False), 12), ("conc-good", wconst(3, 2, '{"good"}', 1, True), 12),
                    ("conc-faulty", wconst(2, 2, ALLK, 1, True), 10), ("one", wconst(1, 2, ALLK, 1, True), 8)]
            for gi, (name, c, depth) in enumerate(gens):
                cfg = vf.write_cfg(wd, f"Gen_Blob_{name}.cfg", c, GEN_BODY)
                hs, _ = vf.gen_simulate("BlobCache", cfg, wd, num=250 if quick else 4000, depth=depth + 6,
                                        seed=seed * 100 + gi)
                for h in vf.dedupe(hs):
                    tid += 1
                    nw = max(s["w"] for s in h)
                    behaviours.append(dict(t=tid, mode="writers", size=c["Size"], writers=nw, hist=h, gen=name))
            ac = {"MaxOps": 6, "Manifests": "{1, 2, 3, 4}", "Names": "{1, 2}", "Spellings": "{1, 2, 3}"}
            cfg = vf.write_cfg(wd, "Gen_BlobApi.cfg", ac, GEN_BODY)
            hs, _ = vf.gen_simulate("BlobApi", cfg, wd, num=100 if quick else 3000, depth=8, seed=seed)
            hx = []
            for nm, c in (("one-name", dict(MaxOps=4 if quick else 5, Manifests="{1, 2, 3}", Names="{1}", Spellings="{1}")),
                          ("two-names", dict(MaxOps=3, Manifests="{1, 4}", Names="{1, 2}", Spellings="{1, 2, 3}"))):
                cfg = vf.write_cfg(wd, f"MC_BlobApi_{nm}.cfg", c, API_MC)
                h1, r = vf.gen_exhaustive("BlobApi", cfg, wd)
                hx += h1
                cov["states"] += r["distinct"]
                cov["transitions"] += r["generated"]
            for h in vf.dedupe(hs + hx):
                tid += 1
                behaviours.append(dict(t=tid, mode="api", api=h))
            behaviours += vf.load_witnesses(PROP)
        recs, v, out = vf.replay_and_validate(wd, behaviours, "./server/internal/cache/blob", "TestVFBlobReplay",
                                              ["server/internal/cache/blob"], "Trace_BlobCache",
                                              env={"VF_KILL": "" if replay else "1"}, go_timeout=1800)
        # conformance with the model itself: BlobCache.tla's own actions over every forced writer schedule, one run per blob size
        by_size = {}
        for _, tr in vf.split_traces(recs):
            h = tr[0]
            if h.get("size", 0) > 0 and any(r["ev"] in ("start", "deliver", "final", "crash") for r in tr):
                by_size.setdefault(h["size"], []).extend(r for r in tr if r["ev"] != "end")
        model_drift = {}
        cov["model_conformance"] = []
        for size, grecs in sorted(by_size.items()):
            gpath = os.path.join(wd, f"trace_writers_{size}.ndjson")
            with open(gpath, "w") as f:
                for r in grecs:
                    f.write(json.dumps(r) + "\n")
            cfgname = f"Trace_BlobModel_{size}.cfg"
            with open(os.path.join(wd, cfgname), "w") as f:
                f.write(f'CONSTANTS Size = {size} Writers = {{1, 2, 3}} Kinds = {{"good", "short", "long", "corrupt", "err"}} MaxCrashes = 9 Concurrent = TRUE\n'
                        "INIT TInit\nNEXT Step\nPOSTCONDITION Accepted\nCHECK_DEADLOCK FALSE\n")
            mv = vf.validate_trace("Trace_BlobModel", cfgname, gpath, wd, timeout=1800)
            for _, _, fl in mv["drift"]:
                for x in fl:
                    model_drift[x] = model_drift.get(x, 0) + 1
            cov["model_conformance"].append(dict(size=size, steps=len(grecs), drift_lines=len(mv["drift"])))
        cov["model_drift"] = model_drift
        if model_drift:
            res.note(f"model drift (real cache differs from BlobCache.tla on forced schedules): {model_drift}")
        if not replay and "VF kills=" not in out:
            raise vf.Inconclusive("kill injection did not run")
        traces = vf.split_traces([r for r in recs if r["ev"] != "kill"])
        kills = [r for r in recs if r["ev"] == "kill"]
        killed = sum(1 for r in kills if r["exit"] == -1)
        if not replay and killed < len(kills) // 4:
            raise vf.Inconclusive(f"strace kill injection ineffective: {killed} of {len(kills)} children were killed")
        cov["traces_validated_against_impl"] = len(traces) + len(kills)
        cov["evaluations"] = len(recs)
        cov["kill_points"] = len(kills)
        cov["children_killed"] = killed
        cov["distinct_nontrivial"] = len({json.dumps(tr[1:]) for _, tr in traces if len(tr) > 3}) + killed
        cov["rule"] = ("trace = forced writer schedule / API history / killed child; non-trivial = more than two steps "
                       "(or a child that really died); distinct by full recorded content")
        cov["samples"] = [tr[:5] for _, tr in traces[:2]] + kills[:2]
        beh = {str(b["t"]): b for b in behaviours}
        known = vf.load_findings(PROP)
        shown = {}
        for ln, tid_s, flags in v["bad"]:
            fl = set(flags)
            k = next((k for k in known if set(k["flags"]) <= fl), None)
            if k is not None:
                res.known_finding(k["what"])
                continue
            key = tuple(flags)
            shown[key] = shown.get(key, 0) + 1
            if shown[key] > 2 or len(res.violations) >= 8:
                continue
            b = beh.get(tid_s)
            p = vf.save_replay(PROP, f"blob-{tier}-{seed}-{tid_s.replace('/', '_')}.ndjson",
                               json.dumps(b if b else recs[ln - 1]) + "\n")
            res.violation(f"{flags}: {json.dumps(recs[ln - 1])[:500]}", p)
        cov["violation_kinds"] = {",".join(k): n for k, n in shown.items()}
        cov["checker_cmd"] = "tlc BlobCache.tla (3 configs) ; tlc BlobApi.tla ; tlc Trace_BlobCache.tla"
    vf.write_evidence(PROP, tier, seed, "model_checking", cov, time.time() - t0, violations=len(res.violations),
                      assumptions=["one unit per Read/Write call (4 bytes)", "Stat+Open of a writer are one step (not separable without hooks)",
                                   "crash = process death (strace SIGKILL before a syscall), not power loss",
                                   "ptrace/strace available in the sandbox"])
    return res.finish()

--------------------------------- MODULE Crash ---------------------------------
(* C12 -- the state machine TLC explores over CrashCore: a prior history of     *)
(* complete operations, one operation executed effect by effect, a crash after   *)
(* any effect, restart, redo, restart.                                           *)
EXTENDS CrashCore

CONSTANTS Names, NoPrune, MaxPrior
VARIABLES st, phase, cur, plan, pre, nprior
vars == <<st, phase, cur, plan, pre, nprior>>

Cfg(g, s, src) == "C" \o g \o s \o src
CreateVers == {Ver(g, s, Cfg(g, s, "c")) : g \in {"G1", "G2"}, s \in {"S1", "S2"}}
PullVers == {Ver("G1", "S1", Cfg("G1", "S1", "p")), Ver("G2", "S1", Cfg("G2", "S1", "p"))}
NoOp == [op |-> "none", n |-> "", m |-> "", v |-> Torn]
Ops(s) ==
  {[op |-> "createfiles", n |-> n, m |-> "", v |-> v] : n \in Names, v \in CreateVers} \cup
  {[op |-> "pull", n |-> n, m |-> "", v |-> v] : n \in Names, v \in PullVers} \cup
  {[op |-> "delete", n |-> n, m |-> "", v |-> Torn] : n \in {x \in Names : Readable(s, x)}} \cup
  {[op |-> "copy", n |-> n, m |-> m, v |-> Torn] : n \in Names, m \in {x \in Names : Readable(s, x)}} \cup
  {[op |-> "createfrom", n |-> n, m |-> m, v |-> Ver(s.man[m].layers[1], sy, Cfg(s.man[m].layers[1], sy, "c"))] :
      n \in Names, m \in {x \in Names : Readable(s, x)}, sy \in {"S1", "S2"}}

Init == st = EmptyStore /\ phase = "prior" /\ cur = NoOp /\ plan = <<>> /\ pre = EmptyStore /\ nprior = 0

Prior == /\ phase = "prior" /\ nprior < MaxPrior
         /\ \E op \in Ops(st) : op.n # op.m /\ st' = Complete(st, op, NoPrune)
         /\ nprior' = nprior + 1 /\ UNCHANGED <<phase, cur, plan, pre>>
Start == /\ phase = "prior"
         /\ \E op \in Ops(st) : op.n # op.m /\ cur' = [op EXCEPT !.v = VerOf(st, op)] /\ plan' = Plan(st, op)
         /\ pre' = st /\ phase' = "running" /\ UNCHANGED <<st, nprior>>
Step == /\ phase = "running" /\ plan # <<>>
        /\ st' = Apply(st, Head(plan), cur.v) /\ plan' = Tail(plan) /\ UNCHANGED <<phase, cur, pre, nprior>>
\* after the main effects the orphaned blobs go, in any order
PruneStep == /\ phase = "running" /\ plan = <<>>
             /\ \E d \in PruneSet(pre, st, cur, NoPrune) : st' = [st EXCEPT !.blobs = @ \ {d}]
             /\ UNCHANGED <<phase, cur, plan, pre, nprior>>
Crash == phase = "running" /\ phase' = "crashed" /\ UNCHANGED <<st, cur, plan, pre, nprior>>
Restart == /\ phase = "crashed" /\ st' = RestartSt(st, NoPrune) /\ phase' = "restarted" /\ UNCHANGED <<cur, plan, pre, nprior>>
Redo == /\ phase = "restarted"
        /\ IF Enabled(st, cur) /\ PullFails(st, cur) = "no" THEN st' = Complete(st, cur, NoPrune) /\ phase' = "redone"
                                 ELSE st' = st /\ phase' = "redofailed"
        /\ UNCHANGED <<cur, plan, pre, nprior>>
Restart2 == /\ phase = "redone" /\ st' = RestartSt(st, NoPrune) /\ phase' = "final" /\ UNCHANGED <<cur, plan, pre, nprior>>
Next == Prior \/ Start \/ Step \/ PruneStep \/ Crash \/ Restart \/ Redo \/ Restart2
Spec == Init /\ [][Next]_vars

\* every state, also in the middle of an operation: blobs before the manifest, manifest removal before blob removal
IntactAlways == Intact(st)
BystandersUnchanged == phase \in {"running", "crashed", "restarted", "redone", "final"} => Bystanders(pre, st, cur)
RedoSucceeds == phase # "redofailed"
RedoConverges == phase = "final" => SameStore(st, RestartSt(Complete(pre, cur, NoPrune), NoPrune), NoPrune)
\* startup repair leaves no debris unless it was told not to prune or a manifest is torn
RestartCleans == (phase = "restarted" /\ ~NoPrune /\ \A n \in DOMAIN st.man : st.man[n].ok) => (st.tmp = 0 /\ st.part = <<>> /\ st.blobs = Referenced(st))
===============================================================================

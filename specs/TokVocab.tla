---------------------------- MODULE TokVocab ---------------------------------
(* the two toy vocabularies (both cover every byte) and unit alphabets of the  *)
(* C20 check; the harness builds the real model.Vocabulary from ToJson of them *)
EXTENDS TokenizerCore

\* ------------------------------------------------------------------ byte-pair encoding
BpeMerged == << <<97, 98>>, <<97, 97>>, <<32, 97>>, <<195, 169>>, <<60, 115>>, <<115, 62>>, <<126, 126>>,
                <<240, 159>>, <<152, 128>>, <<240, 159, 152, 128>>, <<97, 97, 98>>, <<98, 32>>, <<194, 173>>,
                <<194, 160>>, <<97, 98, 97, 98>>, <<32, 32>>, <<10, 10>> >>
VBpe == [fam |-> "bpe",
         pieces |-> [i \in 1..256 |-> <<i - 1>>] \o BpeMerged \o << <<60, 115, 62>>, <<60, 101, 62>> >>,   \* "<s>", "<e>"
         ctrl |-> {256 + Len(BpeMerged) + 1, 256 + Len(BpeMerged) + 2},
         merges |-> << <<<<97>>, <<98>>>>, <<<<97>>, <<97>>>>, <<<<32>>, <<97>>>>, <<<<195>>, <<169>>>>,
                       <<<<98>>, <<98>>>>,                  \* ranked, but "bb" is no vocabulary entry
                       <<<<60>>, <<115>>>>, <<<<115>>, <<62>>>>, <<<<126>>, <<126>>>>, <<<<240>>, <<159>>>>,
                       <<<<152>>, <<128>>>>, <<<<240, 159>>, <<152, 128>>>>, <<<<97, 97>>, <<98>>>>, <<<<98>>, <<32>>>>,
                       <<<<194>>, <<173>>>>, <<<<194>>, <<160>>>>, <<<<97, 98>>, <<97, 98>>>>, <<<<32>>, <<32>>>>,
                       <<<<10>>, <<10>>>> >>,
         score |-> <<>>, nbyte |-> 0]
\* a, b, blank, ~, DEL, <, s, >, e-acute, soft hyphen, emoji, no-break space, inverted !, 0x01, newline
UnitsBpe == << <<97>>, <<98>>, <<32>>, <<126>>, <<127>>, <<60>>, <<115>>, <<62>>, <<195, 169>>, <<194, 173>>,
               <<240, 159, 152, 128>>, <<194, 160>>, <<194, 161>>, <<1>>, <<10>>,
               <<60, 115, 62>>, <<60, 101, 62>> >>    \* the literal forms of the control tokens as units (repeated occurrences)

\* ------------------------------------------------------------------ sentencepiece
Hex(d) == IF d < 10 THEN 48 + d ELSE 55 + d
ByteSurface(b) == <<60, 48, 120, Hex(b \div 16), Hex((b % 16)), 62>>        \* "<0xNN>"
SpmPieces == << <<Mark>>, <<97>>, <<98>>, <<97, 98>>, <<Mark, 97>>, <<Mark, 97, 98>>, <<97, 97>>, <<60>>, <<115>>, <<62>>,
                <<115, 62>>, <<126>>, <<Mark, Mark>>, <<98, Mark>>, <<97, 98, 97, 98>> >>
VSpm == [fam |-> "spm",
         \* "<s>" can also be reached by merging "<" with the piece "s>"; "<e>" only by the cut at special tokens
         pieces |-> [i \in 1..256 |-> ByteSurface(i - 1)] \o SpmPieces \o << <<60, 115, 62>>, <<60, 101, 62>> >>,
         ctrl |-> {256 + Len(SpmPieces) + 1, 256 + Len(SpmPieces) + 2},
         merges |-> <<>>,
         score |-> [i \in 1..256 |-> 0] \o <<-9, -10, -10, -1, -2, -3, -4, -10, -10, -10, -5, -10, -4, -2, -6>> \o <<0, 0>>,
         nbyte |-> 256]
\* a, b, blank, e-acute, emoji, <, s, >, ~, newline, euro sign, combining acute
UnitsSpm == << <<97>>, <<98>>, <<32>>, <<233>>, <<128512>>, <<60>>, <<115>>, <<62>>, <<126>>, <<10>>, <<8364>>, <<769>>,
               <<60, 115, 62>>, <<60, 101, 62>> >>
\* plus the literal form of a byte token (pinned behaviour: it is looked up like any piece)
UnitsSpmLiteral == UnitsSpm \o << ByteSurface(65) >>
===============================================================================

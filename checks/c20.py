"""C20 -- tokenizing then detokenizing returns the original text.

Tokenizer.tla: Encode of both tokenizer families as a state machine over atoms (bytes / runes): split at
special tokens, whole-fragment lookup, one merge per step, ids; TLC checks on every text over the unit
alphabets of TokVocab.tla that the parts always spell the text, that decoding gives the text back, ids are
inside the vocabulary, special literals become their ids and the machine ends in an encoding the closed
definition (TokenizerCore.tla) allows.  The toy vocabularies are turned into real model.Vocabulary values
by harness/model, every generated text is encoded and decoded by the real code (toy vocabularies with a
whole-text and with the llama 3 pre-tokenizer, and the real llama 3.2 vocabulary), Trace_Tokenizer.tla judges.
"""
import json
import time
import zlib

import vf

PROP = "C20"
MC_BODY = """
INIT Init
NEXT Next
INVARIANT PartsSpellText
INVARIANT RoundTrip
INVARIANT IdsInVocabulary
INVARIANT MachineMeetsDefinition
INVARIANT SpecialsEncoded
CONSTRAINT Emit
CHECK_DEADLOCK FALSE
"""
# concrete strings of the units the real-vocabulary texts are built from (index = unit - 1)
REAL_UNITS = ["a", "b", " ", "~", "\x7f", "<", "s", ">", "é", "­", "\U0001F600", " ", "¡", "\x01", "\n",
              "<|begin_of_text|>", "<|end_of_text|>", "'s", "12345", "你好", "é", "\t\t ", "The", " quick", "\r\n", "ไทย"]
REAL_SPECIAL = {"<|begin_of_text|>": 128000, "<|end_of_text|>": 128001}
KNOWN_FLAG_SPM = "spm-byte-token-literal"


def h(x):
    return zlib.crc32(json.dumps(x, sort_keys=True).encode())


SIM_BODY = """
INIT Init
NEXT Next
CONSTRAINT Emit
CHECK_DEADLOCK FALSE
"""


def gen(wd, fam, units, maxu, timeout=3000):
    consts = {"V": "<- " + ("VBpe" if fam == "bpe" else "VSpm"), "Units": "<- " + units, "MaxUnits": maxu}
    cfg = vf.write_cfg(wd, f"MC_Tok_{fam}_{units}.cfg", consts, MC_BODY)
    res = vf.tlc("MC_Tokenizer", cfg, wd, timeout=timeout, deadlock=False)
    return res


def run(tier="quick", seed=1, replay=None):
    t0 = time.time()
    res = vf.Result(PROP)
    quick = tier == "quick"
    cov = dict(states=0, transitions=0, traces_validated_against_impl=0, samples=[], evaluations=0, distinct_nontrivial=0)
    with vf.scratch("vf-c20-") as wd:
        vocabs, unit_atoms = {}, {}
        cases = []
        maxu = 3 if quick else 4
        for fam, units in (("bpe", "UnitsBpe"), ("spm", "UnitsSpm")):
            r = gen(wd, fam, units, maxu)
            vf.tlc_must_pass(r, f"Tokenizer.tla ({fam})")
            cov["states"] += r["distinct"]
            cov["transitions"] += r["generated"]
            vals = vf.printed_json(r["out"])
            voc = [v for v in vals if isinstance(v, dict) and "vocab" in v]
            if not voc:
                raise vf.Inconclusive("vocabulary was not printed by MC_Tokenizer")
            vocabs[fam], unit_atoms[fam] = voc[0]["vocab"], voc[0]["units"]
            texts = [v for v in vals if isinstance(v, dict) and "us" in v]
            # longer texts (<= 7 units) by random walks through the same machine
            cfg = vf.write_cfg(wd, f"Sim_Tok_{fam}.cfg", {"V": "<- " + ("VBpe" if fam == "bpe" else "VSpm"), "Units": "<- " + units, "MaxUnits": 7}, SIM_BODY)
            sims, _ = vf.gen_simulate("MC_Tokenizer", cfg, wd, num=2500 if quick else 30000, depth=12, seed=seed)
            texts = vf.dedupe(texts + [v for v in sims if isinstance(v, dict) and "us" in v])
            cases.append((fam, texts))
        # the pinned treatment of byte-token literals must be rejected by TLC (known finding below)
        r = gen(wd, "spm", "UnitsSpmLiteral", 2, timeout=900)
        if r["timeout"] or "Invariant RoundTrip is violated" not in r["out"]:
            raise vf.Inconclusive("Tokenizer.tla with the byte-token literal unit was not rejected by TLC")
        cov["design_variants_rejected"] = ["SPM text that is the literal form of a byte token (<0x41>) is looked up whole and decodes to the byte"]
        cov["exhaustive"] = True
        UB, US = unit_atoms["bpe"], unit_atoms["spm"]
        LIT = [60, 48, 120, 52, 49, 62]     # "<0x41>", the literal form of a byte token
        recs_in = [dict(kind="vocab", vocab=vocabs["bpe"]), dict(kind="vocab", vocab=vocabs["spm"])]
        if replay:
            recs_in += [json.loads(l) for l in open(replay) if l.strip()]
        else:
            n = 0
            for fam, texts in cases:
                U = UB if fam == "bpe" else US
                for t in texts:
                    if quick and (h(t) + seed) % 2:
                        pass
                    atoms = [a for u in t["us"] for a in U[u - 1]]
                    n += 1
                    recs_in.append(dict(kind="case", id=f"{fam}{n}", fam=fam, pre="whole", text=atoms, add=bool(h(t) & 4)))
                    if fam == "bpe":
                        recs_in.append(dict(kind="case", id=f"{fam}{n}p", fam=fam, pre="llama3", text=atoms, add=False))
                    if fam == "spm" and len(t["us"]) <= 2:
                        # the literal form of a byte token, alone and next to other units (pinned: known finding)
                        ua = [a for u in t["us"] for a in US[u - 1]]
                        for k, a2 in enumerate((LIT + ua, ua + LIT)):
                            recs_in.append(dict(kind="case", id=f"{fam}{n}l{k}", fam=fam, pre="whole", text=a2, add=False))
            # the real llama 3.2 vocabulary and pre-tokenizer: every text of <= 2 (quick) / 3 units over 26 concrete units
            import itertools
            k = 2 if quick else 3
            m = 0
            for ln in range(1, k + 1):
                for combo in itertools.product(range(len(REAL_UNITS)), repeat=ln):
                    if ln == 3 and (h(list(combo)) + seed) % 4:
                        continue
                    s, sp = b"", []
                    for u in combo:
                        lit = REAL_UNITS[u]
                        if lit in REAL_SPECIAL:
                            sp.append([len(s), REAL_SPECIAL[lit]])
                        s += lit.encode()
                    m += 1
                    recs_in.append(dict(kind="case", id=f"real{m}", fam="real", pre="llama3", text=list(s), specials=sp, add=False))
            recs_in += vf.load_witnesses(PROP)
        cov["bounds"] = (f"toy vocabularies (256 byte tokens + merged pieces + 2 control tokens each): every text of <= {maxu} units (and sampled texts of <= 7 units) over 17 (bpe) / 14 (spm) "
                         "units incl. blank, ~, DEL, 0x01, soft hyphen, no-break space, 4-byte emoji, combining mark, special-token literal and its look-alikes; "
                         f"real llama 3.2 vocabulary: every text of <= {2 if quick else 3} units over 26 concrete units (scripts, digits, whitespace runs, contractions, special literals)")
        recs, v, _ = vf.replay_and_validate(wd, recs_in, "./model", "TestVFTokenizerReplay", ["model"], "Trace_Tokenizer", go_timeout=1800)
        by_id = {c.get("id"): c for c in recs_in if c.get("kind") == "case"}
        cov["traces_validated_against_impl"] = len(recs)
        cov["evaluations"] = len(recs)
        cov["distinct_nontrivial"] = len({json.dumps([r["fam"], r["pre"], r["text"]]) for r in recs if len(r["ids"]) < len(r["text"])})
        cov["rule"] = "record = one text through Encode and Decode; non-trivial = at least one merge happened (fewer tokens than atoms); distinct by value"
        cov["samples"] = recs[:1] + recs[len(recs) // 2:len(recs) // 2 + 1] + recs[-1:]
        shown, known = {}, 0
        lit = [60, 48, 120, 52, 49, 62]
        for ln, rid, flags in v["bad"]:
            rec = recs[ln - 1]
            # known finding: SPM looks the literal form of a byte token up like a piece
            if rec["fam"] == "spm" and flags == ["round-trip"] and any(rec["text"][i:i + 6] == lit for i in range(len(rec["text"]))) and 65 in rec["ids"]:
                known += 1
                continue
            key = tuple(flags)
            shown[key] = shown.get(key, 0) + 1
            if shown[key] > 2 or len(res.violations) >= 8:
                continue
            p = vf.save_replay(PROP, f"tok-{tier}-{seed}-{rid}.ndjson", json.dumps(by_id.get(rid) or {}) + "\n")
            res.violation(f"{flags}: {json.dumps(rec)[:700]}", p)
        if known:
            f = [x for x in vf.load_findings(PROP) if x["id"] == "spm-byte-token-literal-decodes-to-byte"]
            if not f:
                raise vf.Inconclusive("known finding spm-byte-token-literal-decodes-to-byte is not listed")
            res.known_finding(f"{f[0]['id']}: {f[0]['what']} ({known} texts in this run)")
        cov["violating_records"] = len(v["bad"]) - known
        cov["known_finding_records"] = known
        cov["drift_records"] = len(v["drift"])
        if v["drift"]:
            res.note(f"{len(v['drift'])} texts where the real tokenizer produced other ids than Tokenizer.tla allows (model drift, not a verdict): {v['drift'][:3]}")
        cov["violation_kinds"] = {",".join(k): n for k, n in shown.items()}
        cov["checker_cmd"] = "tlc MC_Tokenizer.tla (bpe, spm, rejected literal variant) ; tlc Trace_Tokenizer.tla"
    vf.write_evidence(PROP, tier, seed, "model_checking", cov, time.time() - t0, violations=len(res.violations),
                      assumptions=["texts are concatenations of the listed units (not all of Unicode); toy vocabularies of 275 pieces plus the real llama 3.2 vocabulary "
                                   "for the byte-pair family; the sentencepiece family only with the toy vocabulary (its vocabulary file is emptied in this tree)",
                                   "text does not contain U+2581, the sentencepiece blank marker itself (every sentencepiece implementation decodes it to a blank)",
                                   "no BOS/EOS insertion configured; addSpecial true and false must give the same ids"])
    return res.finish()

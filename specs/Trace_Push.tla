------------------------------- MODULE Trace_Push -------------------------------
(* C09 (push half) -- judges what the scripted registries recorded for every push  *)
(* (harness/server/internal/client/ollama/vf_registry_test.go for Registry.Push,    *)
(* harness/server/vf_push_test.go for PushModel): the returned error, how many      *)
(* manifest PUTs arrived, whether every blob had been accepted when they did, what  *)
(* the registry accepted.  One run per implementation (Impl, NL from the cfg).      *)
EXTENDS PushCore, Json, IOUtils

VARIABLES l, nbad
Trace == ndJsonDeserialize(IOEnv.VF_TRACE)
Rng(s) == {s[i] : i \in DOMAIN s}
Init == l = 1 /\ nbad = 0
FOf(e) == [s \in Slots |-> IF \E x \in Rng(e.faults) : x.slot = s[1] /\ x.b = s[2]
                            THEN (CHOOSE x \in Rng(e.faults) : x.slot = s[1] /\ x.b = s[2]).f ELSE "ok"]
Bad(e) ==
     (IF e.man_puts > 0 /\ ~e.all_accepted_at_put THEN {"manifest-sent-before-every-layer-was-accepted"} ELSE {})
\cup (IF e.err = "" /\ e.man_puts = 0 THEN {"push-succeeded-without-sending-the-manifest"} ELSE {})
\cup (IF e.err = "" /\ Rng(e.accepted) # Blobs THEN {"push-succeeded-with-a-layer-the-registry-did-not-accept"} ELSE {})
Drift(e, p) ==
     (IF (e.err = "") # p.ok THEN {"outcome-differs-from-model"} ELSE {})
\cup (IF (e.man_puts > 0) # p.manput THEN {"manifest-put-differs-from-model"} ELSE {})
\cup (IF Rng(e.accepted) # p.accepted THEN {"accepted-blobs-differ-from-model"} ELSE {})
Step ==
  /\ l <= Len(Trace) /\ l' = l + 1
  /\ LET e == Trace[l]
         flags == Bad(e)
         d == Drift(e, PushResult(FOf(e))) IN
       /\ (flags # {}) => PrintT(<<"VFBAD", l, e.t, flags>>)
       /\ (d # {}) => PrintT(<<"VFDRIFT", l, e.t, d>>)
       /\ nbad' = IF flags # {} THEN nbad + 1 ELSE nbad
Accepted == TLCGet("stats").diameter = Len(Trace) + 1
===============================================================================

------------------------------ MODULE Trace_Names ------------------------------
(* C13 -- judges what the real parsers / path builders / blob cache did with     *)
(* every enumerated string (records written by harness/server/vf_names_test.go). *)
EXTENDS NamesCore, IOUtils

VARIABLES l, nbad
tvars == <<l, nbad>>
Trace == ndJsonDeserialize(IOEnv.VF_TRACE)
Range(f) == {f[i] : i \in DOMAIN f}
Init == l = 1 /\ nbad = 0

SafeStr(c) == c # "" /\ c # "." /\ c # ".."
\* a real path (list of components relative to the store root) is confined at depth n below `top`
ConfinedAt(comps, top, n) == /\ Len(comps) = n + 1 /\ comps[1] = top
                             /\ \A k \in 1..Len(comps) : SafeStr(comps[k])
Str(p) == p      \* reference parts are sequences of 1-character strings; logged parts are strings
RECURSIVE Flat(_)
Flat(p) == IF p = <<>> THEN "" ELSE p[1] \o Flat(Tail(p))
RefParts(r) == <<Flat(IF r.h = Missing THEN <<"!","M","I","S","S","I","N","G","!">> ELSE r.h),
                 Flat(IF r.n = Missing THEN <<"!","M","I","S","S","I","N","G","!">> ELSE r.n),
                 Flat(IF r.m = Missing THEN <<"!","M","I","S","S","I","N","G","!">> ELSE r.m),
                 Flat(IF r.t = Missing THEN <<"!","M","I","S","S","I","N","G","!">> ELSE r.t)>>

NameCase(e) ==
  LET rm == ModelParse(e.chars)
      rn == NamesParse(e.chars)
      flags ==
           (IF e.panic # "" THEN {"panic"} ELSE {})
      \cup (IF e.mv /\ ~(Len(e.mpath) = 4 /\ \A k \in 1..Len(e.mpath) : SafeStr(e.mpath[k])) THEN {"name-path-not-four-safe-components"} ELSE {})
      \cup (IF e.mpok /\ ~ConfinedAt(e.mp, "manifests", 4) THEN {"manifest-path-outside-fixed-depth"} ELSE {})
      \cup (IF ~e.mrt \/ ~e.nrt THEN {"print-parse-round-trip-changes-name"} ELSE {})
      \cup (IF ~e.mfold THEN {"case-variants-address-different-models"} ELSE {})
      \cup (IF ~e.xn2m \/ ~e.xm2n THEN {"parsers-disagree-on-fully-qualified-name"} ELSE {})
      \cup (IF e.linkok /\ ~(Len(e.created) = 1 /\ e.removed = <<>>) THEN {"link-did-not-create-exactly-one-file"} ELSE {})
      \cup (IF e.linkok /\ Len(e.created) = 1 /\ ~ConfinedAt(e.createdat, "manifests", 4) THEN {"link-created-file-outside-fixed-depth"} ELSE {})
      \cup (IF ~e.resolvefold THEN {"case-variant-does-not-resolve"} ELSE {})
      \cup (IF ~e.linkok /\ (e.created # <<>> \/ e.removed # <<>>) THEN {"rejected-name-changed-the-store"} ELSE {})
      \cup (IF e.gone # <<>> THEN {"link-unlink-removed-something-else"} ELSE {})
      drift ==
           (IF e.panic = "" /\ e.mfq # FullyQualified(rm) THEN {"types/model accepts differently"} ELSE {})
      \cup (IF e.panic = "" /\ e.nfq # FullyQualified(rn) THEN {"internal/names accepts differently"} ELSE {})
      \cup (IF e.panic = "" /\ e.mb # RefParts(rm) THEN {"types/model splits differently"} ELSE {})
      \cup (IF e.panic = "" /\ e.nfq /\ e.nb # RefParts(rn) THEN {"internal/names splits differently"} ELSE {})
      \cup (IF e.panic = "" /\ e.linkok # FullyQualified(rn) THEN {"blob cache accepts differently"} ELSE {})
  IN /\ (flags # {}) => PrintT(<<"VFBAD", l, e.id, flags>>)
     /\ (drift # {}) => PrintT(<<"VFDRIFT", l, e.id, drift>>)
     /\ nbad' = IF flags # {} THEN nbad + 1 ELSE nbad

DigestCase(e) ==
  LET flags ==
           (IF e.panic # "" THEN {"panic"} ELSE {})
      \cup (IF e.gbpok /\ e.len > 0 /\ ~ConfinedAt(e.gbp, "blobs", 1) THEN {"blob-path-outside-fixed-depth"} ELSE {})
      \cup (IF e.pdok /\ ~ConfinedAt(e.gf, "blobs", 1) THEN {"cache-blob-path-outside-fixed-depth"} ELSE {})
      \cup (IF ~e.canon THEN {"digest-print-parse-round-trip"} ELSE {})
      drift == (IF e.gbpok # e.wellformed THEN {"GetBlobsPath accepts differently"} ELSE {})
          \cup (IF e.pdok # e.wellformedlower THEN {"ParseDigest accepts differently"} ELSE {})
  IN /\ (flags # {}) => PrintT(<<"VFBAD", l, e.id, flags>>)
     /\ (drift # {}) => PrintT(<<"VFDRIFT", l, e.id, drift>>)
     /\ nbad' = IF flags # {} THEN nbad + 1 ELSE nbad

Step == /\ l <= Len(Trace) /\ l' = l + 1
        /\ IF Trace[l].ev = "digest" THEN DigestCase(Trace[l]) ELSE NameCase(Trace[l])
Accepted == TLCGet("stats").diameter = Len(Trace) + 1
===============================================================================

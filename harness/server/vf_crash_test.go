//go:build verif

package server

// /verif harness for C12: the processes the crash driver (checks/c12.py) starts, kills and restarts.
//   TestVFServeChild     the real Serve() on a loopback listener over $OLLAMA_MODELS (startup repair
//                        sequence, real routes); the driver runs it under strace, kills it, restarts it
//   TestVFCrashRegistry  a long-lived registry + CDN (vfRegistry) with a control endpoint that publishes
//                        a version of a model, so that the address in pulled names survives restarts
//   TestVFCrashAssets    writes the GGUF files the driver uploads
// Everything else (strace log -> file-system effects -> crash states, restart, redo, projection) is
// done by the driver from outside the process, over HTTP and on the directory.

import (
	"fmt"
	"net"
	"net/http"
	"os"
	"path/filepath"
	"strings"
	"testing"
)

func vfWritePort(t *testing.T, addr net.Addr) {
	pf := os.Getenv("VF_PORTFILE")
	_, port, _ := net.SplitHostPort(addr.String())
	if err := os.WriteFile(pf+".tmp", []byte(fmt.Sprintf("%s %d", port, os.Getpid())), 0o644); err != nil {
		t.Fatal(err)
	}
	os.Rename(pf+".tmp", pf)
}

func TestVFServeChild(t *testing.T) {
	if os.Getenv("VF_PORTFILE") == "" || os.Getenv("VF_ROLE") != "serve" {
		t.Skip("not a /verif child")
	}
	ln, err := net.Listen("tcp", "127.0.0.1:0")
	if err != nil {
		t.Fatal(err)
	}
	go func() {
		// the port is announced only when the server answers: the startup sequence is over
		for {
			resp, err := http.Get("http://" + ln.Addr().String() + "/api/version")
			if err == nil {
				resp.Body.Close()
				vfWritePort(t, ln.Addr())
				return
			}
		}
	}()
	if err := Serve(ln); err != nil {
		fmt.Println("VF serve error:", err)
		os.Exit(3)
	}
}

func TestVFCrashRegistry(t *testing.T) {
	if os.Getenv("VF_PORTFILE") == "" || os.Getenv("VF_ROLE") != "registry" {
		t.Skip("not a /verif child")
	}
	reg := &vfRegistry{blobs: map[string][]byte{}, tags: map[string][]byte{}}
	gguf := map[string][]byte{"v1": vfGGUFBytes(0), "v2": vfGGUFBytes(1)}
	system := map[string]string{"v1": "You are system one.", "v2": "You are system one."} // v2 shares the system layer with v1
	mux := http.NewServeMux()
	mux.HandleFunc("/vf/publish", func(w http.ResponseWriter, r *http.Request) {
		n, v := r.URL.Query().Get("n"), r.URL.Query().Get("v")
		if v == "big" && gguf[v] == nil {
			// a model layer of 100 004 096 bytes: the smallest that PullModel downloads in two parts
			gguf[v], system[v] = vfGGUFBytes(25001023), "You are system one."
		}
		if gguf[v] == nil {
			http.Error(w, "no such version", 400)
			return
		}
		reg.publish("lib/"+n, "latest", []struct {
			media string
			data  []byte
		}{{"application/vnd.ollama.image.model", gguf[v]}, {"application/vnd.ollama.image.system", []byte(system[v])}})
		w.Write([]byte("ok"))
	})
	mux.HandleFunc("/", reg.serve)
	ln, err := net.Listen("tcp", "127.0.0.1:0")
	if err != nil {
		t.Fatal(err)
	}
	vfWritePort(t, ln.Addr())
	http.Serve(ln, mux)
}

func TestVFCrashAssets(t *testing.T) {
	dir := os.Getenv("VF_ASSET_DIR")
	if dir == "" {
		t.Skip("not a /verif child")
	}
	for i, n := range []string{"G1", "G2"} {
		if err := os.WriteFile(filepath.Join(dir, n+".gguf"), vfGGUFBytes(i), 0o644); err != nil {
			t.Fatal(err)
		}
	}
	_ = strings.TrimSpace
}

--------------------------------- MODULE Gguf ---------------------------------
(* C05 -- the GGUF v3 file layout as ollama writes it, as an independent        *)
(* executable definition (lengths only; values are compared by the harness).   *)
(*                                                                            *)
(*   header            4 magic + 4 version + 8 tensor count + 8 kv count       *)
(*   key/value  *      8 + |key| + 4 type + value                              *)
(*   tensor info *     8 + |name| + 4 dims + 8*dims + 4 kind + 8 offset        *)
(*   padding to `alignment`            <- start of the data section           *)
(*   tensor data *     each at the next multiple of `alignment`, relative     *)
(*                     to the start of the data section                       *)
(*                                                                            *)
(* The module is used three ways: its own consequences are checked by TLC     *)
(* (offsets aligned, tensors disjoint and in order, end = length), it          *)
(* enumerates tensor lists for the replay harness, and Trace_Gguf re-uses the  *)
(* definitions to judge what the real writer/decoder produced.                *)
EXTENDS Integers, Sequences, FiniteSets, TLC, Json

CONSTANTS Aligns,      \* alignments tried; 0 = key absent (default 32)
          MaxTensors,
          NProtos,     \* tensor prototypes are numbered 1..NProtos (see Proto)
          KvProfiles   \* key/value maps are materialised by the harness: profile numbers

\* ---- tensor kinds used (ggml type numbers) and their block geometry
TypeSize(k)  == CASE k = 0 -> 4 [] k = 1 -> 2 [] k = 24 -> 1 [] k = 26 -> 4
                  [] k = 2 -> 18 [] k = 8 -> 34 [] k = 30 -> 2
BlockSize(k) == CASE k \in {0, 1, 24, 26, 30} -> 1 [] k \in {2, 8} -> 32

\* prototypes: kind, shape (as given to the writer), blk = block index or -1
Proto(i) ==
  CASE i = 1  -> [kind |-> 24, shape |-> <<5>>,       blk |-> -1]   \* 5 bytes
    [] i = 2  -> [kind |-> 24, shape |-> <<31>>,      blk |-> 0]    \* 31 bytes
    [] i = 3  -> [kind |-> 24, shape |-> <<32>>,      blk |-> 1]    \* 32 bytes
    [] i = 4  -> [kind |-> 24, shape |-> <<3, 11>>,   blk |-> 10]   \* 33 bytes, 2-d
    [] i = 5  -> [kind |-> 0,  shape |-> <<2, 3>>,    blk |-> -1]   \* F32 24 bytes
    [] i = 6  -> [kind |-> 1,  shape |-> <<1>>,       blk |-> 0]    \* F16 2 bytes
    [] i = 7  -> [kind |-> 2,  shape |-> <<32, 3>>,   blk |-> 1]    \* Q4_0 54 bytes
    [] i = 8  -> [kind |-> 8,  shape |-> <<2, 2, 32>>, blk |-> -1]  \* Q8_0 136 bytes, 3-d
    [] i = 9  -> [kind |-> 24, shape |-> <<0>>,       blk |-> 2]    \* empty tensor
    [] i = 10 -> [kind |-> 26, shape |-> <<16>>,      blk |-> 10]   \* I32 64 bytes
    [] i = 11 -> [kind |-> 30, shape |-> <<7, 1>>,    blk |-> -1]   \* BF16 14 bytes
    [] i = 12 -> [kind |-> 24, shape |-> <<1, 1, 1, 65>>, blk |-> 0] \* 65 bytes, 4-d

RECURSIVE Prod(_)
Prod(s) == IF s = <<>> THEN 1 ELSE Head(s) * Prod(Tail(s))
SizeOf(kind, shape) == (Prod(shape) * TypeSize(kind)) \div BlockSize(kind)

Pad(x, a) == (a - (x % a)) % a
Al(a) == IF a = 0 THEN 32 ELSE a

\* offsets (relative to the data section) of tensors with the given sizes, in file order
RECURSIVE Off(_, _, _)
Off(sizes, a, i) == IF i = 1 THEN 0
                    ELSE LET p == Off(sizes, a, i - 1) + sizes[i - 1] IN p + Pad(p, a)

InfoBytes(nlen, dims) == 8 + nlen + 4 + 8 * dims + 4 + 8
HeaderBytes == 24

RECURSIVE Sum(_)
Sum(s) == IF s = <<>> THEN 0 ELSE Head(s) + Sum(Tail(s))

DataStart(meta, a) == meta + Pad(meta, a)
\* file length: no padding after the last tensor; none at all without tensors
FileLen(meta, sizes, a) ==
  IF sizes = <<>> THEN meta
  ELSE DataStart(meta, a) + Off(sizes, a, Len(sizes)) + sizes[Len(sizes)]

\* ------------------------------------------------------------------ generator
VARIABLES align, ts, kvp
vars == <<align, ts, kvp>>

Init == align \in Aligns /\ kvp \in KvProfiles /\ ts = <<>>
Next == /\ Len(ts) < MaxTensors
        /\ \E p \in 1..NProtos : ts' = Append(ts, p)
        /\ UNCHANGED <<align, kvp>>
Spec == Init /\ [][Next]_vars

Sizes == [i \in 1..Len(ts) |-> SizeOf(Proto(ts[i]).kind, Proto(ts[i]).shape)]

\* ------------------------------------------------------------------ consequences of the layout
\* (any metadata length: the data section is handled relative to its start)
Aligned == \A i \in 1..Len(ts) : Off(Sizes, Al(align), i) % Al(align) = 0
InOrderDisjoint ==
  \A i \in 1..(Len(ts) - 1) : Off(Sizes, Al(align), i) + Sizes[i] <= Off(Sizes, Al(align), i + 1)
EndIsLength ==
  \A meta \in {24, 25, 56, 63, 64, 100} :
     LET a == Al(align)
         \* what a decoder does: pad, skip, pad, skip ...
         end == IF ts = <<>> THEN meta
                ELSE DataStart(meta, a) + Off(Sizes, a, Len(ts)) + Sizes[Len(ts)]
     IN end = FileLen(meta, Sizes, a)
\* the naive accumulation `s += size` (without the padding) is NOT the layout:
\* kept as a named deviation, it was the pinned writer's defect
Off_UnpaddedSum(sizes, a, i) == LET s == Sum(SubSeq(sizes, 1, i - 1)) IN s + Pad(s, a)

Emit == PrintT(ToJson([align |-> align, kvp |-> kvp, ts |-> [i \in 1..Len(ts) |-> Proto(ts[i])]]))
===============================================================================

--------------------------- MODULE Trace_ChatPrompt ---------------------------
(* C19 -- judges what the real chatPrompt produced (one NDJSON record per       *)
(* (conversation, context limit) pair, written by harness/server).             *)
(* cost[i] is the measured token count of the candidate "system messages       *)
(* before i + messages i..n" (real template, harness tokenizer, image tokens). *)
EXTENDS Integers, Sequences, FiniteSets, TLC, Json, IOUtils

VARIABLES l, nbad
vars == <<l, nbad>>
Trace == ndJsonDeserialize(IOEnv.VF_TRACE)
Range(f) == {f[i] : i \in DOMAIN f}

Init == l = 1 /\ nbad = 0

Case(e) ==
  LET n == Len(e.roles)
      Sys(i) == {j \in 1..(i - 1) : e.roles[j] = "system"}
      ok == {i \in 1..n : \A k \in i..(n - 1) : e.cost[k] <= e.limit}
      start == CHOOSE i \in ok : \A o \in ok : i <= o
      E == Sys(start) \cup start..n
      S == Range(e.ids)
      nonsys == SelectSeq(e.ids, LAMBDA x : x \in 1..n /\ e.roles[x] # "system")
      \* expected images: those of the retained messages, in order
      X == [i \in start..n |-> e.imgs[i]]
      nimg == LET RECURSIVE Sm(_) Sm(i) == IF i > n THEN 0 ELSE e.imgs[i] + Sm(i + 1) IN Sm(start)
      \* owner of the k-th (0-based) expected image
      Owner(k) == LET RECURSIVE F(_, _) F(i, left) == IF left < e.imgs[i] THEN i ELSE F(i + 1, left - e.imgs[i]) IN F(start, k)
      TagIdx == {t[1] : t \in Range(e.tags)}
      flags ==
        IF e.err # "" THEN {"error"} ELSE
           (IF n \notin S THEN {"latest-message-missing"} ELSE {})
      \cup (IF \E j \in Sys(start) : j \notin S THEN {"system-message-missing"} ELSE {})
      \cup (IF \E j \in start..n : j \notin S THEN {"fitting-message-dropped"} ELSE {})
      \cup (IF \E j \in S : j \notin E THEN {"message-beyond-context-kept"} ELSE {})
      \cup (IF \E a, b \in 1..Len(nonsys) : a < b /\ nonsys[a] > nonsys[b] THEN {"order-changed"} ELSE {})
      \cup (IF S = E /\ Len(e.imgids) # nimg THEN {"image-count"} ELSE {})
      \cup (IF S = E /\ Len(e.imgids) = nimg /\ \E k \in 1..nimg : e.imgids[k] # k - 1 THEN {"image-ids"} ELSE {})
      \cup (IF S = E /\ Len(e.imgsrc) = nimg /\ \E k \in 1..nimg :
                 e.imgsrc[k][1] # 0 /\ (e.imgsrc[k][1] # Owner(k - 1)) THEN {"image-of-wrong-message"} ELSE {})
      \cup (IF S = E /\ Len(e.imgids) = nimg /\ (Len(e.tags) # nimg \/ TagIdx # 0..(nimg - 1)) THEN {"image-not-tagged-exactly-once"} ELSE {})
      \cup (IF S = E /\ Len(e.imgids) = nimg /\ Len(e.tags) = nimg /\ TagIdx = 0..(nimg - 1) /\
                 \E t \in Range(e.tags) : t[2] # Owner(t[1]) THEN {"image-tag-in-wrong-message"} ELSE {})
  IN /\ (flags # {}) => PrintT(<<"VFBAD", l, e.id, flags>>)
     /\ nbad' = IF flags # {} THEN nbad + 1 ELSE nbad

Step == /\ l <= Len(Trace) /\ l' = l + 1 /\ Case(Trace[l])
Spec == Init /\ [][Step]_vars
Accepted == TLCGet("stats").diameter = Len(Trace) + 1
===============================================================================

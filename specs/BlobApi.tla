-------------------------------- MODULE BlobApi --------------------------------
(* C08 -- sequential view of blob.DiskCache: manifests stored as blobs, names    *)
(* (case-insensitive) linked to them.  Reference for Put / Link / Unlink /       *)
(* Resolve and generator of histories for the replay harness.  Manifests 1 and 2 *)
(* have the same length, 3 is shorter, 4 longer (the harness materialises them). *)
EXTENDS Integers, Sequences, FiniteSets, TLC, Json

CONSTANTS MaxOps, Manifests, Names, Spellings
VARIABLES blobs,   \* manifests present as blobs
          links,   \* name -> manifest (0 = not linked); a name is one case-folded identity
          hist
vars == <<blobs, links, hist>>

Init == blobs = {} /\ links = [n \in Names |-> 0] /\ hist = <<>>

Put(m) == /\ blobs' = blobs \cup {m} /\ UNCHANGED links
          /\ hist' = Append(hist, [op |-> "put", m |-> m, n |-> 0, s |-> 0])
\* a name is linked only to a manifest blob that exists; any spelling addresses the same name
Link(n, s, m) == /\ links' = IF m \in blobs THEN [links EXCEPT ![n] = m] ELSE links
                 /\ UNCHANGED blobs
                 /\ hist' = Append(hist, [op |-> "link", m |-> m, n |-> n, s |-> s])
Unlink(n, s) == /\ links' = [links EXCEPT ![n] = 0] /\ UNCHANGED blobs
                /\ hist' = Append(hist, [op |-> "unlink", m |-> 0, n |-> n, s |-> s])
\* resolving returns the digest of exactly the linked bytes (and stores them as a blob again)
Resolve(n, s) == /\ blobs' = IF links[n] # 0 THEN blobs \cup {links[n]} ELSE blobs
                 /\ UNCHANGED links
                 /\ hist' = Append(hist, [op |-> "resolve", m |-> 0, n |-> n, s |-> s])

Next == /\ Len(hist) < MaxOps
        /\ \/ \E m \in Manifests : Put(m)
           \/ \E n \in Names, s \in Spellings, m \in Manifests : Link(n, s, m)
           \/ \E n \in Names, s \in Spellings : Unlink(n, s) \/ Resolve(n, s)
Spec == Init /\ [][Next]_vars

LinkedExists == \A n \in Names : links[n] # 0 => links[n] \in blobs
Emit == (Len(hist) = MaxOps) => PrintT(ToJson(hist))
===============================================================================

----------------------------- MODULE RegistryPull -----------------------------
(* C09 (pull half) -- the state machine TLC explores over RegistryPullCore:      *)
(* attempts with a chunk plan and a fault script each, over one cache.           *)
EXTENDS RegistryPullCore

CONSTANTS MaxAttempts, MaxFaults, Pre
Pairs == UNION {{<<s, x>> : x \in FaultsOf(s)} : s \in Slots}
FaultSets == {F \in UNION {kSubset(k, Pairs) : k \in 0..MaxFaults} : \A p, q \in F : p[1] = q[1] => p = q}
Script(F) == [s \in Slots |-> IF \E p \in F : p[1] = s THEN (CHOOSE p \in F : p[1] = s)[2] ELSE "ok"]


VARIABLES cache, attempts, outcomes, hist
vars == <<cache, attempts, outcomes, hist>>
Init == /\ cache = [small |-> [l \in {"s", "c"} |-> "absent"], big |-> [u \in Units |-> "none"], len |-> 0, marker |-> {},
                    link |-> (IF Pre = "old" THEN "old" ELSE "none"), outcome |-> "none"]
        /\ attempts = 0 /\ outcomes = <<>> /\ hist = <<>>

Attempt(plan, f) ==
  /\ attempts < MaxAttempts
  /\ attempts' = attempts + 1
  /\ hist' = Append(hist, [plan |-> plan, faults |-> {[slot |-> s[1], k |-> s[2], f |-> f[s]] : s \in {x \in Slots : f[x] # "ok"}}])
  /\ cache' = AttemptResult(cache, plan, f)
  /\ outcomes' = Append(outcomes, cache'.outcome)
Next == \E plan \in Plans : \E F \in FaultSets : Attempt(plan, Script(F))
Spec == Init /\ [][Next]_vars

\* ---------------------------------------------------------------- the property, on the design
PullSuccessComplete == cache.outcome = "ok" => CompleteC(cache)
LinkAfterLayers == cache.link = "new" => CompleteC(cache)
FailedPullNoLink == [][cache'.outcome = "fail" => cache'.link = cache.link]_vars

Emit == (attempts = MaxAttempts) => PrintT(ToJson(hist))
View == <<cache, attempts>>
===============================================================================

----------------------------- MODULE Trace_BlobModel -----------------------------
(* C08 -- conformance of blob.DiskCache's writers with BlobCache.tla: the forced      *)
(* schedules that harness/server/internal/cache/blob replayed (start / deliver /      *)
(* final / crash steps of up to three writers of one blob) are applied to the model    *)
(* with BlobCache's own actions, and after every step the model's file (unit by unit)  *)
(* and the writer's result are compared with what the real cache left on disk and      *)
(* returned.  Differences are VFDRIFT; the property is judged by Trace_BlobCache.tla.  *)
(* One run per blob size (Size comes from the cfg).                                   *)
EXTENDS BlobCache, IOUtils

VARIABLES l, tid
Trace == ndJsonDeserialize(IOEnv.VF_TRACE)
TInit == Init /\ l = 1 /\ tid = 0
Obs(e) == [i \in 1..Len(e.units) |-> e.units[i]]

Apply(e) ==
  CASE e.ev = "start"   -> IF wr[e.w].pc = "new" THEN Start(e.w, [kind |-> e.kind, k |-> e.k]) ELSE UNCHANGED <<file, wr, crashes, hist>>
    [] e.ev = "deliver" -> IF wr[e.w].pc = "copy" THEN Deliver(e.w) ELSE UNCHANGED <<file, wr, crashes, hist>>
    [] e.ev = "final"   -> IF wr[e.w].pc = "final" THEN FinalWrite(e.w) ELSE UNCHANGED <<file, wr, crashes, hist>>
    [] e.ev = "crash"   -> IF wr[e.w].pc \in {"copy", "final"} THEN Crash(e.w) ELSE UNCHANGED <<file, wr, crashes, hist>>
    [] OTHER -> UNCHANGED <<file, wr, crashes, hist>>
Enabled(e) ==
  CASE e.ev = "start" -> wr[e.w].pc = "new" [] e.ev = "deliver" -> wr[e.w].pc = "copy"
    [] e.ev = "final" -> wr[e.w].pc = "final" [] e.ev = "crash" -> wr[e.w].pc \in {"copy", "final"} [] OTHER -> TRUE

Step ==
  /\ l <= Len(Trace) /\ l' = l + 1
  /\ LET e == Trace[l] IN
       IF e.ev = "reset" THEN /\ file' = <<>> /\ wr' = [w \in Writers |-> NoW] /\ crashes' = 0 /\ hist' = <<>> /\ tid' = e.t
       ELSE /\ Apply(e) /\ tid' = tid
            /\ LET d == (IF ~Enabled(e) THEN {"step-not-enabled-in-model"} ELSE {})
                        \cup (IF e.ev \in {"start", "deliver", "final", "crash"} /\ Obs(e) # file' THEN {"file-differs-from-model"} ELSE {})
                        \cup (IF e.ev \in {"start", "deliver", "final"} /\ Enabled(e) /\ e.ret # wr'[e.w].res THEN {"result-differs-from-model"} ELSE {})
               IN (d # {}) => PrintT(<<"VFDRIFT", l, tid, d>>)
Accepted == TLCGet("stats").diameter = Len(Trace) + 1
===============================================================================

"""C07 -- prompt caching, slot reuse and context shifting never change what the model sees.

Runner.tla models slot records, an abstract KV cache per slot and the batch loop; TLC checks the
design (cache = record, slot exclusivity, context bound) per configuration and generates request
histories; harness/runner/ollamarunner drives a real Server (real InputCache, real kvcache.Causal,
scripted model whose output is a hash of what the cache shows it); Trace_Runner.tla checks, on the
recorded facts, (a) every batch token is shown exactly the slot record, (b) no slot in use is handed
out, (c) output = output of a fresh runner -- and replays Runner's own actions for conformance.
"""
import json
import os
import time

import vf

PROP = "C07"
MC_BODY = """
INIT Init
NEXT Next
VIEW View
INVARIANT CacheMatchesRecord
INVARIANT SlotExclusive
INVARIANT InUseIffLive
INVARIANT WithinContext
CHECK_DEADLOCK FALSE
"""
GEN_BODY = """
INIT Init
NEXT Next
CONSTRAINT Emit
CHECK_DEADLOCK FALSE
"""
TRACE_BODY = """
INIT TInit
NEXT Step
POSTCONDITION Accepted
CHECK_DEADLOCK FALSE
"""


def mk(name, numctx, parallel, batch, multi, shift):
    return dict(name=name, numctx=numctx, parallel=parallel, batch=batch, multi=multi, shift=shift)


CONFIGS = [
    mk("single-4", 4, 1, 2, False, True),
    mk("two-4-shift", 4, 2, 2, False, True),
    mk("two-4-multi-noshift", 4, 2, 3, True, False),
    mk("two-6-multi-shift", 6, 2, 3, True, True),
    mk("three-5-multi-shift", 5, 3, 2, True, True),
    mk("single-6-noshift", 6, 1, 3, False, False),
]


def consts(c, maxprompt, maxreqs, maxsteps, keeps="{0, 1, 2, 9}", predicts="{2, 5}", asis=False, stops=False):
    return {"NumCtx": c["numctx"], "Parallel": c["parallel"], "BatchSize": c["batch"], "MultiUser": vf.tla_bool(c["multi"]),
            "CanShift": vf.tla_bool(c["shift"]), "MaxPrompt": maxprompt, "MaxReqs": maxreqs, "MaxSteps": maxsteps,
            "Keeps": keeps, "Predicts": predicts, "CodeAsIs": vf.tla_bool(asis), "UseStops": vf.tla_bool(stops)}


def run(tier="quick", seed=1, replay=None):
    t0 = time.time()
    res = vf.Result(PROP)
    quick = tier == "quick"
    cov = dict(states=0, transitions=0, traces_validated_against_impl=0, samples=[], evaluations=0,
               distinct_nontrivial=0, configs=[])
    cfgs = {c["name"]: c for c in CONFIGS}
    with vf.scratch("vf-c07-") as wd:
        if replay:
            behaviours = [json.loads(l) for l in open(replay) if l.strip()]
        else:
            behaviours = []
            for c in CONFIGS:
                if quick and c["name"] not in ("two-4-multi-noshift", "single-4"):
                    continue
                cfg = vf.write_cfg(wd, f"MC_Runner_{c['name']}.cfg",
                                   consts(c, 3, 2, 8 if quick else 10, keeps="{0, 1}", predicts="{3}"), MC_BODY)
                r = vf.tlc("Runner", cfg, wd, timeout=2400)
                vf.tlc_must_pass(r, f"Runner design ({c['name']})")
                cfg = vf.write_cfg(wd, f"MCS_Runner_{c['name']}.cfg",
                                   consts(c, 3, 2, 7 if quick else 8, keeps="{0}", predicts="{5}", stops=True), MC_BODY)
                r2 = vf.tlc("Runner", cfg, wd, timeout=2400)
                vf.tlc_must_pass(r2, f"Runner design with stop sequences ({c['name']})")
                cov["states"] += r2["distinct"]
                cov["transitions"] += r2["generated"]
                cov["states"] += r["distinct"]
                cov["transitions"] += r["generated"]
                cov["configs"].append(dict(config=c["name"], distinct=r["distinct"], generated=r["generated"]))
            tid = 0
            for ci, c in enumerate(CONFIGS):
                steps = 12
                cfg = vf.write_cfg(wd, f"Gen_Runner_{c['name']}.cfg", consts(c, c["numctx"] + 2, 4, steps), GEN_BODY)
                hs, _ = vf.gen_simulate("Runner", cfg, wd, num=60 if quick else 1200, depth=steps + 2, seed=seed * 50 + ci)
                # requests with stop sequences: a stop trims the slot's record but not the cache, the next request must not see it
                cfg = vf.write_cfg(wd, f"GenS_Runner_{c['name']}.cfg", consts(c, c["numctx"] + 2, 4, steps, keeps="{0, 9}", predicts="{6}", stops=True), GEN_BODY)
                hs2, _ = vf.gen_simulate("Runner", cfg, wd, num=40 if quick else 900, depth=steps + 2, seed=seed * 50 + ci + 7)
                hs = hs + hs2
                for h in vf.dedupe(hs):
                    tid += 1
                    behaviours.append(dict(t=tid, cfg=c, hist=h))
            behaviours += vf.load_witnesses(PROP)
        inp = os.path.join(wd, "behaviours.ndjson")
        with open(inp, "w") as f:
            for b in behaviours:
                f.write(json.dumps(b) + "\n")
        trace = os.path.join(wd, "trace.ndjson")
        mapping = vf.harness_overlay(["runner/ollamarunner", "model"])
        mapping.update(vf.shared_files(wd, [("runner/ollamarunner", "ollamarunner", "vfbackend.go.tmpl")]))
        rc, out = vf.go_test2("./runner/ollamarunner", "^TestVFRunnerReplay$", wd, mapping,
                              env=dict(VF_IN=inp, VF_OUT=trace), timeout=1800)
        if rc != 0 or "VF replayed=" not in out:
            raise vf.Inconclusive("runner harness failed:\n" + out[-3000:])
        recs = vf.read_ndjson(trace)
        beh = {str(b["t"]): b for b in behaviours}
        # one validation run per configuration (the constants of Runner.tla)
        by_cfg = {}
        cur = None
        for r in recs:
            if r["ev"] == "reset":
                cur = r["cfg"]
            by_cfg.setdefault(cur, []).append(r)
        allbad, alldrift = [], []
        for name, rs in by_cfg.items():
            c = cfgs[name]
            tp = os.path.join(wd, f"trace_{name}.ndjson")
            with open(tp, "w") as f:
                for r in rs:
                    f.write(json.dumps(r) + "\n")
            cfg = vf.write_cfg(wd, f"Trace_Runner_{name}.cfg", consts(c, 1, 1000000, 1000000, keeps="{0}", predicts="{1}"), TRACE_BODY)
            v = vf.validate_trace("Trace_Runner", cfg, tp, wd, timeout=3000)
            allbad += [(rs[ln - 1], tid, fl) for ln, tid, fl in v["bad"]]
            alldrift += [(rs[ln - 1], tid, fl) for ln, tid, fl in v["drift"]]
        traces = vf.split_traces(recs)
        cov["traces_validated_against_impl"] = len(traces)
        cov["evaluations"] = sum(1 for r in recs if r["ev"] in ("submit", "batch"))
        nt = set()
        for _, tr in traces:
            subs = [r for r in tr if r["ev"] == "submit" and r["err"] == ""]
            if len(subs) >= 2 and any(r["past"] > 0 for r in subs):
                nt.add(json.dumps([[r["prompt"], r["keep"], r["predict"]] for r in subs] + [tr[0]["cfg"]]))
        cov["distinct_nontrivial"] = len(nt)
        cov["rule"] = ("trace = one request history on one runner configuration; non-trivial = at least two accepted "
                       "requests one of which reused a cached prefix; distinct by requests and configuration")
        cov["samples"] = [[{k: v for k, v in r.items() if k != "fwd"} for r in tr[:5]] for _, tr in traces[:2]]
        known = vf.load_findings(PROP)
        shown = {}
        seen_t = set()
        for r, tid_s, flags in allbad:
            if tid_s in seen_t:
                continue
            seen_t.add(tid_s)
            key = tuple(flags)
            shown[key] = shown.get(key, 0) + 1
            if shown[key] > 2 or len(res.violations) >= 8:
                continue
            p = vf.save_replay(PROP, f"runner-{tier}-{seed}-{tid_s}.ndjson", json.dumps(beh.get(tid_s)) + "\n")
            slim = {k: v for k, v in r.items() if k != "fwd"}
            res.violation(f"{flags} (config {beh[tid_s]['cfg']['name'] if tid_s in beh else '?'}): {json.dumps(slim)[:500]}", p)
        cov["violating_traces"] = len(seen_t)
        cov["violation_kinds"] = {",".join(k): n for k, n in shown.items()}
        dk = {}
        for _, _, fl in alldrift:
            for f in fl:
                dk[f] = dk.get(f, 0) + 1
        cov["drift"] = dk
        if dk:
            res.note(f"drift (real runner differs from Runner.tla's prediction, no C07 clause broken): {dk}")
        cov["checker_cmd"] = "tlc Runner.tla (MC per configuration) ; tlc Trace_Runner.tla (per configuration)"
    vf.write_evidence(PROP, tier, seed, "model_checking", cov, time.time() - t0, violations=len(res.violations),
                      assumptions=["scripted model: next token = hash of the tokens the KV cache exposes, greedy sampling",
                                   "text-only inputs (no multimodal / SameBatch), cache enabled, plain causal cache",
                                   "runner/llamarunner (llama.cpp KV cache) is not exercised: needs a real model file"])
    return res.finish()

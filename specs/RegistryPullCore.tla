----------------------------- MODULE RegistryPullCore -------------------------
(* C09 (pull half) -- Registry.Pull of server/internal/client/ollama against a    *)
(* registry that misbehaves, attempt after attempt over the same cache (the retry *)
(* loop of registry.Local.handlePull, or the user repeating the pull).            *)
(*                                                                              *)
(* The published model: a small layer "s" and a config "c" (one unit each, below   *)
(* the chunking threshold: fetched as ONE chunk whose digest is the layer's) and a *)
(* big layer "b" of U units, fetched in the chunks the registry's chunksums list   *)
(* names for this attempt.  One unit = one write of the client: the registry       *)
(* flushes after every unit, so a chunk of n units is n writes, and checkWriter    *)
(* holds the last one back until the chunk's hash is verified.                     *)
(*                                                                              *)
(* Cache state: small[l] in {absent, good} (a one-write file exists only verified);*)
(* big[u] in {none, good, bad} for every unit, the file's length being the highest *)
(* unit ever written (a sparse file: unwritten units below it read as zeros);      *)
(* marker = the chunks (start, end) recorded as "v1 pull chunksum" blobs;          *)
(* link in {none, old, new}.                                                      *)
EXTENDS Integers, Sequences, FiniteSets, FiniteSetsExt, TLC, Json

CONSTANTS U, TrustSize, CountOnly, StaleMarkers
\* TrustSize: a layer whose file has the manifest's size counts as cached (registry.go Pull: c.Get(l.Digest), info.Size == l.Size)
\* CountOnly: the chunk list is accepted when the byte count adds up (completed = expected); FALSE: the list must also be
\* contiguous -- a chunk that does not start where the previous one ended ends the list (the repair of registry.go Pull)
\* StaleMarkers: a chunk marker stays valid when a later chunk of ANOTHER plan writes unverified bytes over its range (the
\* body of a chunk goes into the file as it arrives, only its last write waits for the hash) -- the code as it is
\* (TrustSize TRUE, CountOnly FALSE, StaleMarkers TRUE = the code as it is; all FALSE = a design that satisfies the property)

Units == 1..U
\* chunk plans: contiguous partitions of 1..U into 2 or 3 chunks, as <<start, end>> pairs
Plans == {<<<<1, i>>, <<i + 1, U>>>> : i \in 1..(U - 1)} \cup
         {<<<<1, p[1]>>, <<p[1] + 1, p[2]>>, <<p[2] + 1, U>>>> : p \in {q \in (1..(U - 2)) \X (2..(U - 1)) : q[1] < q[2]}}
ManifestFaults == {"503", "404", "garbage"}
ListFaults == {"503", "truncated", "malformed", "dup-first", "dup-first-drop-last"}
ChunkFaults == {"503", "short1", "corrupt1", "stall1"}
\* request slots of one attempt: manifest, chunk list of b, whole-layer chunk of s / c, k-th listed chunk of b
Slots == {<<"m", 0>>, <<"l", 0>>, <<"s", 0>>, <<"c", 0>>} \cup {<<"b", k>> : k \in 1..3}
FaultsOf(s) == CASE s[1] = "m" -> ManifestFaults [] s[1] = "l" -> ListFaults [] OTHER -> ChunkFaults
Max2(a, b) == IF a > b THEN a ELSE b
BigGood(bg) == \A u \in Units : bg[u] = "good"
\* the chunks the client sees in the list, in order
Listed(plan, f) ==
  CASE f = "ok" -> plan
    [] f = "truncated" -> SubSeq(plan, 1, Len(plan) - 1)           \* the stream ends early, cleanly
    [] f = "malformed" -> SubSeq(plan, 1, 1)                        \* garbage after the first entry
    [] f = "dup-first" -> <<plan[1]>> \o plan
    [] f = "dup-first-drop-last" -> <<plan[1]>> \o SubSeq(plan, 1, Len(plan) - 1)
    [] OTHER -> <<>>                                                \* 503: no list at all
Size(ch) == ch[2] - ch[1] + 1

\* one chunk request of the big layer: st = [big, len, marker, err, got]
Fetch(st, ch, f) ==
  IF ch \in st.marker THEN [st EXCEPT !.got = @ + Size(ch)]                  \* recorded as done earlier: counted, not fetched
  ELSE CASE f = "ok" ->
         [st EXCEPT !.big = [u \in Units |-> IF u \in ch[1]..ch[2] THEN "good" ELSE @[u]],
                    !.len = Max2(@, ch[2]), !.marker = @ \cup {ch}, !.got = @ + Size(ch)]
    [] f = "503" -> [st EXCEPT !.err = TRUE]
    [] f \in {"short1", "stall1"} ->          \* one unit arrives, then a clean end of body / silence until the read timeout
         IF Size(ch) = 1 THEN [st EXCEPT !.err = TRUE]                          \* (the registry sends nothing of a one-unit chunk)
         ELSE [st EXCEPT !.big = [@ EXCEPT ![ch[1]] = "good"], !.len = Max2(@, ch[1]), !.err = TRUE, !.got = @ + 1]
    [] f = "corrupt1" ->                       \* right length, first unit flipped: all writes but the last one reach the file
         [st EXCEPT !.big = [u \in Units |-> IF u = ch[1] /\ Size(ch) > 1 THEN "bad"
                                               ELSE IF u \in (ch[1] + 1)..(ch[2] - 1) THEN "good" ELSE @[u]],
                    !.len = Max2(@, ch[2] - 1), !.err = TRUE, !.got = @ + Size(ch),
                    !.marker = IF StaleMarkers \/ Size(ch) = 1 THEN @ ELSE {mk \in @ : mk[2] < ch[1] \/ mk[1] > ch[2] - 1}]

RECURSIVE FetchAll(_, _, _, _)
FetchAll(st, chunks, f, k) ==
  IF chunks = <<>> THEN st ELSE FetchAll(Fetch(st, Head(chunks), f[<<"b", IF k > 3 THEN 3 ELSE k>>]), Tail(chunks), f, k + 1)

\* the listed chunks up to the first one that does not start where the previous one ended
ContigPrefix(chunks) ==
  LET StartOk(i) == chunks[i][1] = (IF i = 1 THEN 1 ELSE chunks[i - 1][2] + 1) /\ chunks[i][2] <= U
      n == CHOOSE k \in 0..Len(chunks) : (\A i \in 1..k : StartOk(i)) /\ (k = Len(chunks) \/ ~StartOk(k + 1))
  IN SubSeq(chunks, 1, n)
\* one attempt as a function of the cache state c = [small, big, len, marker, link]
AttemptResult(c, plan, f) ==
  IF f[<<"m", 0>>] # "ok" THEN [c EXCEPT !.outcome = "fail"]
  ELSE
    LET \* small layers: cached when present; else one chunk = one write, which happens only after verification
        smallNew == [l \in {"s", "c"} |-> IF c.small[l] = "good" \/ f[<<l, 0>>] = "ok" THEN "good" ELSE "absent"]
        smallErr == \E l \in {"s", "c"} : c.small[l] # "good" /\ f[<<l, 0>>] # "ok"
        bigCached == IF TrustSize THEN c.len = U ELSE BigGood(c.big)
        st0 == [big |-> c.big, len |-> c.len, marker |-> c.marker, err |-> FALSE, got |-> 0]
        listed == Listed(plan, f[<<"l", 0>>])
        taken == IF CountOnly THEN listed ELSE ContigPrefix(listed)
        st1 == IF bigCached THEN [st0 EXCEPT !.got = U] ELSE FetchAll(st0, taken, f, 1)
        ok == ~smallErr /\ ~st1.err /\ st1.got = U            \* g.Wait() = nil and completed = expected
    IN [small |-> smallNew, big |-> st1.big, len |-> st1.len, marker |-> st1.marker,
        link |-> IF ok THEN "new" ELSE c.link, outcome |-> IF ok THEN "ok" ELSE "fail"]
CompleteC(c) == BigGood(c.big) /\ \A l \in {"s", "c"} : c.small[l] = "good"
===============================================================================

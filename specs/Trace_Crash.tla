------------------------------- MODULE Trace_Crash -------------------------------
(* C12 -- judges what checks/c12.py recorded from real servers:                    *)
(*  scenario lines: the store before the operation (pre), the operation, the       *)
(*    ordered file-system effects strace saw (directory effects dropped, repeated  *)
(*    writes collapsed), the store of the uninterrupted run after a restart (ref); *)
(*  state lines: one per crash state (the store after the first kn effects, or     *)
(*    after a real SIGKILL): the store and the API after the real restart (r1),    *)
(*    the status of the repeated operation (redo), the store after a second        *)
(*    restart (r2).                                                                *)
(* VFBAD  = the property is violated on the real code.                             *)
(* VFDRIFT = the real code does not follow CrashCore (effect order / what restart  *)
(*    leaves) -- the model, not the code, needs attention.                         *)
EXTENDS CrashCore, Json, IOUtils

VARIABLES l, nbad
Trace == ndJsonDeserialize(IOEnv.VF_TRACE)
Init == l = 1 /\ nbad = 0

Good(p) == {d \in DOMAIN p.blobs : p.blobs[d]}
\* a recorded projection as a CrashCore store (debris is not compared)
ToSt(p) == [man |-> p.man, blobs |-> Good(p), tmp |-> 0, part |-> <<>>, links |-> {}]
ScenOf(t) == Trace[CHOOSE i \in DOMAIN Trace : Trace[i].ev = "scenario" /\ Trace[i].t = t]
\* the operation as CrashCore sees it: the version it stores is the one the uninterrupted run stored
OpOf(sc) == [op |-> sc.op.op, n |-> sc.op.n, m |-> sc.op.m,
             v |-> IF sc.op.op \in {"createfiles", "createfrom", "pull"} /\ sc.op.n \in DOMAIN sc.ref.man THEN sc.ref.man[sc.op.n] ELSE Torn]
StoredVer(sc) == IF sc.op.op = "copy" THEN sc.pre.man[sc.op.m] ELSE OpOf(sc).v
IntactP(p) == \A n \in DOMAIN p.man : p.man[n].ok => BlobsOf(p.man[n]) \subseteq Good(p)

ScenDrift(sc) ==
  LET op == OpOf(sc)
      pre == ToSt(sc.pre)
      plan == Plan(pre, op)
      main == SubSeq(sc.effects, 1, sc.nmain)
      pruned == {sc.effects[i].d : i \in (sc.nmain + 1)..Len(sc.effects)}
      after == ApplyAll(pre, plan, StoredVer(sc))
  IN   (IF main # plan THEN {"effect-order-differs-from-plan"} ELSE {})
  \cup (IF pruned # PruneSet(pre, after, op, sc.noprune) THEN {"pruned-blobs-differ-from-model"} ELSE {})
  \cup (IF ~SameStore(ToSt(sc.ref), RestartSt(Complete(pre, op, sc.noprune), sc.noprune), sc.noprune) THEN {"uninterrupted-result-differs-from-model"} ELSE {})

StateBad(e, sc) ==
  LET inv == {sc.involved[i] : i \in DOMAIN sc.involved} IN
     (IF ~IntactP(e.r1) THEN {"resolvable-model-not-intact-after-restart"} ELSE {})
\cup (IF \E n \in DOMAIN sc.pre.man \ inv : n \notin DOMAIN e.r1.man \/ e.r1.man[n] # sc.pre.man[n]
         THEN {"uninvolved-model-changed"} ELSE {})
\* (a redo that failed is repeated once: redo2; r2 is the store after the last of them and a restart)
\cup (IF ~(e.redo = 200 \/ (sc.op.op = "delete" /\ e.redo = 404)) THEN {"redo-failed"} ELSE {})
\cup (IF (e.redo = 200 \/ e.redo2 = 200) /\ ~IntactP(e.r2) THEN {"resolvable-model-not-intact-after-redo"} ELSE {})
\cup (IF (e.redo = 200 \/ e.redo = 404 \/ e.redo2 = 200) /\ ~SameStore(ToSt(e.r2), ToSt(sc.ref), sc.noprune) THEN {"redo-does-not-converge"} ELSE {})
\cup (IF \E n \in DOMAIN sc.pre.man \ inv : n \notin DOMAIN e.r2.man \/ e.r2.man[n] # sc.pre.man[n]
         THEN {"uninvolved-model-changed-by-redo"} ELSE {})

StateDrift(e, sc) ==
  LET pre == ToSt(sc.pre)
      crash == ApplyAll(pre, SubSeq(sc.effects, 1, e.kn), StoredVer(sc))
      pred == RestartSt(crash, sc.noprune)
      listed == {e.r1.listed[i] : i \in DOMAIN e.r1.listed}
  IN (IF e.src = "prefix" /\ ~sc.big /\ (pred.man # e.r1.man \/ (~sc.noprune /\ pred.blobs # Good(e.r1))) THEN {"restart-result-differs-from-model"} ELSE {})
  \cup (IF listed # {n \in DOMAIN e.r1.man : e.r1.man[n].ok} THEN {"listing-differs-from-readable-manifests"} ELSE {})
  \cup (IF \E n \in DOMAIN e.r1.show : e.r1.show[n] # 200 THEN {"listed-model-cannot-be-shown"} ELSE {})

Step ==
  /\ l <= Len(Trace) /\ l' = l + 1
  /\ LET e == Trace[l] IN
       IF e.ev = "scenario" THEN
            /\ LET d == IF e.big THEN {} ELSE ScenDrift(e) IN (d # {}) => PrintT(<<"VFDRIFT", l, e.t, d>>)
            /\ nbad' = nbad
       ELSE IF e.ev = "state" THEN
            LET sc == ScenOf(e.t)
                flags == StateBad(e, sc)
                d == StateDrift(e, sc) IN
            /\ (flags # {}) => PrintT(<<"VFBAD", l, e.t, flags>>)
            /\ (d # {}) => PrintT(<<"VFDRIFT", l, e.t, d>>)
            /\ nbad' = IF flags # {} THEN nbad + 1 ELSE nbad
       ELSE nbad' = nbad
Accepted == TLCGet("stats").diameter = Len(Trace) + 1
===============================================================================

package llm

// /verif harness for C16: enumerated (model, options, GPU list) configurations are run through the
// real EstimateGPULayers and PredictServerFit; the inputs the estimator derives (layer sizes with
// their kv share, graph sizes, output layer, projector) and the result are recorded for
// specs/Trace_MemEstimate.tla.

import (
	"bufio"
	"bytes"
	"encoding/json"
	"fmt"
	"os"
	"path/filepath"
	"strconv"
	"strings"
	"testing"

	"github.com/ollama/ollama/api"
	"github.com/ollama/ollama/discover"
	"github.com/ollama/ollama/fs/ggml"
)

type vfMemCase struct {
	Id   int   `json:"id"`
	Blk  []int `json:"blk"`
	Gpus []struct {
		Free int `json:"free"`
		Min  int `json:"min"`
	} `json:"gpus"`
	Opt struct {
		Out int `json:"out"`
		Gzo int `json:"gzo"`
		Ov  int `json:"ov"`
		Ng  int `json:"ng"`
	} `json:"opt"`
	Arch  string `json:"arch"`  // "" = an architecture without graph formula (both graphs equal); "llama": full and partial graph differ
	Ctx   int    `json:"ctx"`   // num_ctx (0 = 2048)
	Sweep bool   `json:"sweep"` // also run with the first GPU's free memory at, just below and just above every placement threshold
}

func vfMemWrite(path string, kv ggml.KV, ts []ggml.Tensor) error {
	f, err := os.Create(path)
	if err != nil {
		return err
	}
	defer f.Close()
	return ggml.WriteGGUF(f, kv, ts)
}

func vfMemTensor(name string, n int) ggml.Tensor {
	return ggml.Tensor{Name: name, Kind: 24, Shape: []uint64{uint64(n)}, WriterTo: bytes.NewReader(make([]byte, n))}
}

type vfMemModel struct {
	f *ggml.GGML
}

func vfMemLoadModel(dir string, blk []int, out int, arch string) (*ggml.GGML, error) {
	if arch == "" {
		arch = "vf"
	}
	var ts []ggml.Tensor
	for i, n := range blk {
		ts = append(ts, vfMemTensor(fmt.Sprintf("blk.%d.w.weight", i), n))
	}
	if out > 0 {
		ts = append(ts, vfMemTensor("output.weight", out))
	}
	path := filepath.Join(dir, fmt.Sprintf("m-%s-%v-%d.gguf", arch, blk, out))
	err := vfMemWrite(path, ggml.KV{
		"general.architecture":           arch,
		arch + ".context_length":          uint32(2048),
		arch + ".embedding_length":        uint32(2),
		arch + ".block_count":             uint32(len(blk)),
		arch + ".attention.head_count":    uint32(2),
		arch + ".attention.head_count_kv": uint32(1),
		"tokenizer.ggml.tokens":           []string{" "},
	}, ts)
	if err != nil {
		return nil, err
	}
	return LoadModel(path, 0)
}

// the case itself, and for a sweep case the same with the first GPU's free memory around every placement threshold
func vfMemRunAll(dir string, models map[string]*ggml.GGML, c vfMemCase) []map[string]any {
	first := vfMemRun(dir, models, c)
	recs := []map[string]any{first}
	if !c.Sweep || first["err"] != "" || len(c.Gpus) == 0 {
		return recs
	}
	u := func(k string) int {
		switch v := first[k].(type) {
		case uint64:
			return int(v)
		case int:
			return v
		}
		return 0
	}
	L := first["L"].([]uint64)
	bases := map[int]bool{0: true}
	for lo := 0; lo <= len(L); lo++ { // sums of runs of consecutive layers (placement goes from the last layer down)
		sum := 0
		for hi := lo; hi < len(L); hi++ {
			sum += int(L[hi])
			bases[sum] = true
		}
	}
	if len(L) > 0 { // an admitted GPU starts with its minimum and one buffer layer of the size of blk.0
		for b := range bases {
			bases[b+int(L[0])] = true
		}
	}
	seen := map[int]bool{c.Gpus[0].Free: true}
	for base := range bases {
		for _, g := range []int{u("gP"), u("gF")} {
			for _, out := range []int{0, u("out")} {
				t := base + g + out + u("gzo") + c.Opt.Ov + c.Gpus[0].Min
				for d := -1; d <= 1; d++ {
					if f := t + d; f > 0 && !seen[f] {
						seen[f] = true
						c2 := c
						c2.Gpus = append(c2.Gpus[:0:0], c.Gpus...)
						c2.Gpus[0].Free = f
						r := vfMemRun(dir, models, c2)
						r["id"] = fmt.Sprintf("%d/%d", c.Id, f)
						recs = append(recs, r)
					}
				}
			}
		}
	}
	return recs
}

func vfMemRun(dir string, models map[string]*ggml.GGML, c vfMemCase) (rec map[string]any) {
	rec = map[string]any{"ev": "case", "id": c.Id, "err": "", "free": []int{}, "min": []int{}, "L": []uint64{}, "out": 0,
		"gP": 0, "gF": 0, "gzo": 0, "ov": c.Opt.Ov, "ng": c.Opt.Ng, "layers": 0, "sizes": []uint64{}, "vram": 0, "total": 0,
		"split": []int{}, "fit": false}
	defer func() {
		if r := recover(); r != nil {
			rec["err"] = fmt.Sprint("panic: ", r)
		}
	}()
	key := fmt.Sprint(c.Arch, c.Blk, c.Opt.Out)
	f := models[key]
	if f == nil {
		var err error
		if f, err = vfMemLoadModel(dir, c.Blk, c.Opt.Out, c.Arch); err != nil {
			rec["err"] = err.Error()
			return
		}
		models[key] = f
	}
	var projectors []string
	if c.Opt.Gzo > 0 {
		p := filepath.Join(dir, fmt.Sprintf("proj-%d.gguf", c.Opt.Gzo))
		if _, err := os.Stat(p); err != nil {
			if err := vfMemWrite(p, ggml.KV{"general.architecture": "clip"}, []ggml.Tensor{vfMemTensor("v.w.weight", c.Opt.Gzo)}); err != nil {
				rec["err"] = err.Error()
				return
			}
		}
		projectors = []string{p}
	}
	os.Setenv("OLLAMA_GPU_OVERHEAD", strconv.Itoa(c.Opt.Ov))
	gpus := make(discover.GpuInfoList, len(c.Gpus))
	free := make([]int, len(c.Gpus))
	mins := make([]int, len(c.Gpus))
	for i, g := range c.Gpus {
		gpus[i].Library = "cuda"
		gpus[i].ID = strconv.Itoa(i)
		gpus[i].FreeMemory = uint64(g.Free)
		gpus[i].TotalMemory = uint64(g.Free) * 2
		gpus[i].MinimumMemory = uint64(g.Min)
		free[i], mins[i] = g.Free, g.Min
	}
	opts := api.DefaultOptions()
	opts.NumCtx = 2048
	if c.Ctx > 0 {
		opts.NumCtx = c.Ctx
	}
	opts.NumGPU = c.Opt.Ng
	est := EstimateGPULayers(gpus, f, projectors, opts, 1)
	fit, _ := PredictServerFit(gpus, f, nil, projectors, opts, 1)

	// the inputs the estimator works with, obtained the way it obtains them
	ctx := opts.NumCtx
	if len(projectors) > 0 {
		ctx = max(ctx, 2048) // "multimodal models require at least 2048 context"
	}
	kv, _, _ := f.GraphSize(uint64(ctx), uint64(min(ctx, opts.NumBatch)), 1, "")
	layers := f.Tensors().GroupLayers()
	L := make([]uint64, len(c.Blk))
	for i := range L {
		blk := layers[fmt.Sprintf("blk.%d", i)]
		L[i] = blk.Size() + kv[i]
	}
	split := []int{}
	if est.TensorSplit != "" {
		for _, s := range strings.Split(est.TensorSplit, ",") {
			n, _ := strconv.Atoi(s)
			split = append(split, n)
		}
	}
	sizes := est.GPUSizes
	if sizes == nil {
		sizes = []uint64{}
	}
	rec["free"], rec["min"], rec["L"] = free, mins, L
	rec["out"], rec["gP"], rec["gF"] = est.memoryLayerOutput, est.graphPartialOffload, est.graphFullOffload
	rec["gzo"] = est.projectorWeights + est.projectorGraph
	rec["layers"], rec["sizes"], rec["vram"], rec["total"], rec["split"], rec["fit"] = est.Layers, sizes, est.VRAMSize, est.TotalSize, split, fit
	return rec
}

func TestVFMemReplay(t *testing.T) {
	inPath, outPath := os.Getenv("VF_IN"), os.Getenv("VF_OUT")
	if inPath == "" || outPath == "" {
		t.Skip("VF_IN / VF_OUT not set")
	}
	t.Setenv("OLLAMA_KV_CACHE_TYPE", "")
	t.Setenv("OLLAMA_FLASH_ATTENTION", "")
	in, err := os.Open(inPath)
	if err != nil {
		t.Fatal(err)
	}
	defer in.Close()
	out, err := os.Create(outPath)
	if err != nil {
		t.Fatal(err)
	}
	defer out.Close()
	w := bufio.NewWriterSize(out, 1<<20)
	defer w.Flush()
	enc := json.NewEncoder(w)
	dir := t.TempDir()
	models := map[string]*ggml.GGML{}
	sc := bufio.NewScanner(in)
	sc.Buffer(make([]byte, 1<<20), 1<<26)
	n := 0
	for sc.Scan() {
		var c vfMemCase
		if err := json.Unmarshal(sc.Bytes(), &c); err != nil {
			t.Fatalf("bad case: %v", err)
		}
		for _, r := range vfMemRunAll(dir, models, c) {
			enc.Encode(r)
		}
		n++
	}
	os.Unsetenv("OLLAMA_GPU_OVERHEAD")
	fmt.Printf("VF replayed=%d\n", n)
}

--------------------------- MODULE Trace_Tokenizer ---------------------------
(* C20 -- judges what the real tokenizers returned (one NDJSON record per text, *)
(* written by harness/model).  fam "bpe" / "spm": the toy vocabularies of       *)
(* TokVocab.tla, which the harness turned into real model.Vocabulary values;    *)
(* text = atoms (bytes / runes), ids = 0-based token ids, dec = bytes of        *)
(* Decode(ids).  fam "real": the llama 3.2 vocabulary of the repository's       *)
(* testdata with its own pre-tokenizer; lens = decoded length of every token,   *)
(* specials = [byte offset, id] of the special literals the text was built from.*)
EXTENDS TokVocab, TLC, Json, IOUtils

VARIABLES l, nbad
vars == <<l, nbad>>
Trace == ndJsonDeserialize(IOEnv.VF_TRACE)
Init == l = 1 /\ nbad = 0

RECURSIVE StartsL(_, _, _, _)
StartsL(is, lens, k, off) == IF k > Len(is) THEN {} ELSE {<<off, is[k]>>} \cup StartsL(is, lens, k + 1, off + lens[k])

Case(e) ==
  LET toy == e.fam # "real"
      Vc == IF e.fam = "spm" THEN VSpm ELSE VBpe
      inrange == \A i \in DOMAIN e.ids : e.ids[i] >= 0 /\ e.ids[i] < e.nvocab
      ids1 == [i \in DOMAIN e.ids |-> e.ids[i] + 1]
      want == IF toy THEN TextBytes(Vc, e.text) ELSE e.text
      lens == IF toy /\ inrange THEN [i \in DOMAIN ids1 |-> Len(PieceBytes(Vc, ids1[i]))] ELSE e.lens
      starts == IF inrange /\ Len(lens) = Len(e.ids) THEN StartsL(e.ids, lens, 1, 0) ELSE {}
      expect == IF toy THEN {<<Len(TextBytes(Vc, SubSeq(e.text, 1, p - 1))), s - 1>> :
                                 <<s, p>> \in {x \in Specials(Vc) \X (1..Len(e.text)) : OccursAt(e.text, Vc.pieces[x[1]], x[2])}}
                ELSE {<<x[1], x[2]>> : x \in Rg(e.specials)}
      flags ==
           (IF e.err # "" THEN {"error-or-panic"} ELSE {})
      \cup (IF ~inrange THEN {"id-outside-vocabulary"} ELSE {})
      \cup (IF e.err = "" /\ inrange /\ e.dec # want THEN {"round-trip"} ELSE {})
      \cup (IF e.err = "" /\ inrange /\ e.dec = want /\ ~(expect \subseteq starts) THEN {"special-literal-not-its-token"} ELSE {})
      \cup (IF e.err = "" /\ ~e.again THEN {"encoding-not-repeatable"} ELSE {})
      drift ==
           (IF toy /\ e.err = "" /\ inrange /\ e.pre = "whole" /\ ids1 \notin Encodings(Vc, e.text) THEN {"ids-differ-from-model"} ELSE {})
      \cup (IF toy /\ e.err = "" /\ inrange /\ DecodeBytes(Vc, ids1) # e.dec THEN {"decode-differs-from-model"} ELSE {})
  IN /\ (flags # {}) => PrintT(<<"VFBAD", l, e.id, flags>>)
     /\ (drift # {}) => PrintT(<<"VFDRIFT", l, e.id, drift>>)
     /\ nbad' = IF flags # {} THEN nbad + 1 ELSE nbad

Step == /\ l <= Len(Trace) /\ l' = l + 1 /\ Case(Trace[l])
Spec == Init /\ [][Step]_vars
Accepted == TLCGet("stats").diameter = Len(Trace) + 1
===============================================================================

"""Shared pipeline of the scheduler family (C01, C02, C11): Sched.tla model check, behaviour
generation, gated replay + noise runs on the real scheduler, Trace_Sched.tla validation."""
import json
import os
import time

import vf

FLAGS = {
    "C01": {"closed-while-in-use", "closed-twice", "closed-runner-granted"},
    "C02": {"two-replies", "not-drained", "request-never-answered", "scheduler-stuck-holding-its-lock"},
    "C11": {"more-runners-than-limit", "two-runners-for-one-model", "granted-runner-with-other-options",
            "granted-runner-of-other-model", "compatible-request-waits-instead-of-reusing-the-loaded-runner", "runner-started-where-it-does-not-fit"},
}
INVS = ["NoCloseWhileInUse", "CloseAtMostOnce", "NoDeadGrant", "AtMostOneReply", "NoOrphan", "BoundedRunners",
        "OnePerModel", "NoLockCycle", "RefNonNeg"]

CONFIGS = [
    dict(name="two-on-one-max1", models=["m1", "m2"], modelof=dict(q1="m1", q2="m1", q3="m2"), optof=dict(q1=0, q2=0, q3=0),
         keepof=dict(q1=-1, q2=-1, q3=-1), maxrunners=1, queue=3, unload=True, ping=True, loadfail=True, tinygpu=False),
    dict(name="options-differ-max2", models=["m1", "m2"], modelof=dict(q1="m1", q2="m1", q3="m2"), optof=dict(q1=0, q2=1, q3=0),
         keepof=dict(q1=1, q2=0, q3=-1), maxrunners=2, queue=2, unload=True, ping=False, loadfail=False, tinygpu=True),
    dict(name="three-models-max2", models=["m1", "m2", "m3"], modelof=dict(q1="m1", q2="m2", q3="m3", q4="m1"),
         optof=dict(q1=0, q2=0, q3=0, q4=0), keepof=dict(q1=-1, q2=1, q3=0, q4=-1), maxrunners=2, queue=4, unload=False,
         ping=False, loadfail=True, tinygpu=False),
    dict(name="two-gpus-parallel2", models=["m1", "m2"], modelof=dict(q1="m1", q2="m2", q3="m2"), optof=dict(q1=0, q2=0, q3=0),
         keepof=dict(q1=-1, q2=-1, q3=-1), maxrunners=2, queue=3, unload=False, ping=False, loadfail=False, tinygpu=False,
         twogpus=True, parallel=2),
]


def q(s):
    return '"' + s + '"'


def mc_module(wd, c):
    name = "MCSched_" + c["name"].replace("-", "_")
    fn = lambda d, f: "[" + ", ".join(f"{k} |-> {f(v)}" for k, v in d.items()) + "]"
    txt = f"""---- MODULE {name} ----
EXTENDS Sched
MCModelOf == {fn(c['modelof'], q)}
MCOptOf == {fn(c['optof'], str)}
MCKeepOf == {fn({k: (v if v >= 0 else '0 - 1') for k, v in c['keepof'].items()}, str)}
====
"""
    with open(os.path.join(wd, name + ".tla"), "w") as f:
        f.write(txt)
    return name


def consts(c, fixes=(True, True, True), maxhist=0, runner_ids=None):
    return {"Model": vf.tla_set(q(m) for m in c["models"]), "Req": vf.tla_set(q(x) for x in c["modelof"]),
            "ModelOf": "<- MCModelOf", "OptOf": "<- MCOptOf", "KeepOf": "<- MCKeepOf", "MaxRunners": c["maxrunners"],
            "MaxRunnerIds": runner_ids or len(c["modelof"]), "QueueCap": c["queue"], "DefaultKeep": 1,
            "AllowExplicitUnload": vf.tla_bool(c["unload"]), "AllowPingFail": vf.tla_bool(c["ping"]),
            "AllowLoadFail": vf.tla_bool(c["loadfail"]), "FixRecheckOnUse": vf.tla_bool(fixes[0]),
            "FixIdentityDelete": vf.tla_bool(fixes[1]), "FixLockOrder": vf.tla_bool(fixes[2]), "MaxHist": maxhist,
            "CallerLeavesOnCancel": "FALSE"}


MC_BODY = "INIT Init\nNEXT Next\nVIEW View\nCHECK_DEADLOCK FALSE\n" + "".join(f"INVARIANT {i}\n" for i in INVS)
GEN_BODY = "INIT Init\nNEXT Next\nCONSTRAINT Emit\nCHECK_DEADLOCK FALSE\n"


LIVE_BODY = "SPECIFICATION LiveSpec\nPROPERTY Answered\nPROPERTY Drain\nCHECK_DEADLOCK FALSE\n"


def model_conformance(wd, behaviours, traces, cov, res):
    """Sched.tla's own actions applied to the labels of every behaviour the gated replay followed to the end; the model's
    verdict per request and its runner count are compared with the recorded facts (Trace_SchedModel.tla, drift only)."""
    beh = {str(b["t"]): b for b in behaviours}
    by_cfg = {}
    for _, tr in traces:
        h = tr[0]
        b = beh.get(str(h.get("t")))
        end = [r for r in tr if r["ev"] == "end"]
        if b is None or h.get("noise") or int(h.get("t", 0)) >= 900000 or not end or end[0].get("diverged", 1) != 0:
            continue
        line = dict(t=b["t"], hist=b["hist"], grants=[[r["q"], r["r"]] for r in tr if r["ev"] == "grant"],
                    refused=[r["q"] for r in tr if r["ev"] == "refuse"], starts=sum(1 for r in tr if r["ev"] == "start"))
        by_cfg.setdefault(h["cfg"], []).append(line)
    cov["model_conformance"] = []
    drift = {}
    for c in CONFIGS:
        lines = by_cfg.get(c["name"], [])
        if not lines:
            continue
        mc = mc_module(wd, c)
        root = "TSM_" + c["name"].replace("-", "_")
        txt = open(os.path.join(wd, mc + ".tla")).read().replace(f"MODULE {mc}", f"MODULE {root}").replace("EXTENDS Sched", "EXTENDS Trace_SchedModel")
        with open(os.path.join(wd, root + ".tla"), "w") as f:
            f.write(txt)
        path = os.path.join(wd, f"behaviours_{root}.ndjson")
        with open(path, "w") as f:
            for ln in lines:
                f.write(json.dumps(ln) + "\n")
        cfg = vf.write_cfg(wd, f"{root}.cfg", consts(c, runner_ids=4), "INIT TInit\nNEXT Step\nPOSTCONDITION Accepted\nCHECK_DEADLOCK FALSE\n")
        expect = sum(len(ln["hist"]) + 1 for ln in lines)
        try:
            v = vf.validate_trace(root, cfg, path, wd, timeout=1800, env={"VF_EXPECT_NUM": str(expect)})
        except vf.Inconclusive as ex:
            res.note(f"model conformance ({c['name']}) did not complete: {str(ex)[:200]}")
            continue
        for _, _, fl in v["drift"]:
            for x in fl:
                drift[x] = drift.get(x, 0) + 1
        cov["model_conformance"].append(dict(config=c["name"], behaviours=len(lines), steps=expect, drift_lines=len(v["drift"])))
    cov["model_drift"] = drift
    if drift:
        res.note(f"model drift (real scheduler differs from Sched.tla on fully followed behaviours): {drift}")


def confirmed(wd, b, flags, tag):
    """re-run one behaviour on its own, six times (one harness process); True if one of the runs shows one of the flags again.
    (Steps that depend on real time -- the 10 ms expiry re-queue -- make some defects show in a fraction of the runs only.)"""
    sub = os.path.join(wd, tag)
    os.makedirs(sub, exist_ok=True)
    vf.copy_specs(sub)
    copies = [dict(b, t=i + 1, seed=b.get("seed", 1) * 10 + i) for i in range(6)]
    try:
        _, v2, _ = vf.replay_and_validate(sub, copies, "./server", "TestVFSchedReplay", ["server"], "Trace_Sched", go_timeout=900, tlc_timeout=600)
    except vf.Inconclusive:
        return False
    return any(set(fl) & set(flags) for _, _, fl in v2["bad"])


def liveness(wd, cov, quick):
    """C02's 'eventually': Answered and Drain under weak fairness on the repaired design (Sched.tla, LiveSpec).  Explicit
    unloads are left out and the channel capacity is >= the number of requests: with a smaller capacity the completed loop
    blocks sending an expiry event into the full channel it alone drains (DESIGN.md 11.7) -- a capacity artefact at 2-3 slots."""
    cov["liveness"] = []
    for c in (CONFIGS[:1] if quick else CONFIGS[:3]):
        c2 = dict(c, unload=False, queue=max(c["queue"], len(c["modelof"]) + (0 if c["loadfail"] else 1)))
        if len(c2["modelof"]) > 3:
            c2["modelof"] = {k: v for k, v in list(c2["modelof"].items())[:3]}
            c2["optof"] = {k: c2["optof"][k] for k in c2["modelof"]}
            c2["keepof"] = {k: c2["keepof"][k] for k in c2["modelof"]}
        mod = mc_module(wd, dict(c2, name=c2["name"] + "-live"))
        cfg = vf.write_cfg(wd, f"Live_{mod}.cfg", consts(c2, runner_ids=3), LIVE_BODY)
        r = vf.tlc(mod, cfg, wd, timeout=2400, heap="16g")
        vf.tlc_must_pass(r, f"Sched liveness ({c['name']})")
        cov["liveness"].append(dict(config=c["name"], distinct=r["distinct"], generated=r["generated"], properties=["Answered", "Drain"]))
        cov["states"] += r["distinct"]
        cov["transitions"] += r["generated"]
        if c is CONFIGS[0]:
            # non-vacuity, and the contract with the caller: if scheduleRunner stopped waiting when its context ends, the unbuffered
            # reply would block processPending with the runner's lock held -- TLC must reject that variant
            cfg = vf.write_cfg(wd, f"LiveCaller_{mod}.cfg", dict(consts(c2, runner_ids=3), CallerLeavesOnCancel="TRUE"), LIVE_BODY)
            r = vf.tlc(mod, cfg, wd, timeout=2400, heap="16g")
            if "Temporal property" not in r["out"] or "violated" not in r["out"]:
                raise vf.Inconclusive("Sched.tla with CallerLeavesOnCancel is no longer rejected by the liveness properties:\n" + r["out"][-1200:])
            cov["liveness"].append(dict(config=c["name"] + " + CallerLeavesOnCancel", rejected=True))


def handler_progress(wd, res, cov, seed, quick):
    """C02 at the API: requests through the real handlers (scheduleRunner is the scheduler's caller), half of them abandoned
    by their client; a patient request that gets no answer, or a runner still listed at the end, is a violation."""
    out_path = os.path.join(wd, "progress.ndjson")
    rc, out = vf.go_test2("./server", "^TestVFHandlerProgress$", wd, vf.harness_overlay(["server"]),
                          env=dict(VF_OUT=out_path, VF_SEED=str(seed), VF_ROUNDS="3" if quick else "12"), timeout=1500)
    recs = vf.read_ndjson(out_path) if os.path.exists(out_path) else []
    if (rc != 0 or "VF replayed=" not in out) and not any(r["ev"] == "unanswered" for r in recs):
        raise vf.Inconclusive("harness TestVFHandlerProgress failed:\n" + out[-3000:])
    rounds = [r for r in recs if r["ev"] == "round"]
    cov["handler_progress"] = {"rounds": len(rounds), "requests": {k: sum(r["counts"].get(k, 0) for r in rounds) for k in sorted({k for r in rounds for k in r["counts"]})},
                               "runners_started": sum(r["runners_started"] for r in rounds), "runners_closed": sum(r["runners_closed"] for r in rounds)}
    bad = [r for r in recs if r["ev"] == "unanswered"]
    bad += [dict(r, ev="still-loaded") for r in rounds if r["loaded_at_end"] != 0 or r["runners_started"] != r["runners_closed"]]
    if bad:
        p = vf.save_replay("C02", f"handler-progress-{seed}.ndjson", "".join(json.dumps(r) + "\n" for r in bad))
        kinds = sorted({r["ev"] for r in bad})
        res.violation(f"API workload with abandoned requests (seed {seed}): {kinds}: {json.dumps(bad[0])[:400]}", p)


def victim_choice(wd, res, cov, quick):
    """the eviction clause of C11 at function level: every table of <= 3 (quick) / 4 loaded runners through the real
    findRunnerToUnload; SchedVictim.tla holds the reference choice, Trace_SchedVictim.tla judges"""
    consts = {"MaxRunners": 3 if quick else 4, "Refs": "{0, 1, 2}", "Durs": "{0, 1, 2}"}
    cfg = vf.write_cfg(wd, "MC_SchedVictim.cfg", consts, "INIT Init\nNEXT Next\nINVARIANT IdleFirst\nCONSTRAINT Emit\nCHECK_DEADLOCK FALSE\n")
    vals, r = vf.gen_exhaustive("SchedVictim", cfg, wd, timeout=1200)
    cases = [dict(c, id=i + 1) for i, c in enumerate(vf.dedupe(vals))]
    sub = os.path.join(wd, "victim")
    os.makedirs(sub, exist_ok=True)
    vf.copy_specs(sub)
    recs, v, _ = vf.replay_and_validate(sub, cases, "./server", "TestVFVictimReplay", ["server"], "Trace_SchedVictim", go_timeout=900)
    cov["victim_tables"] = len(recs)
    cov["victim_states"] = r["distinct"]
    cov["victim_drift"] = len(v["drift"])
    for ln, rid, flags in v["bad"][:3]:
        p = vf.save_replay("C11", f"victim-{rid}.ndjson", json.dumps(cases[int(rid) - 1]) + "\n")
        res.violation(f"{flags} (findRunnerToUnload): {json.dumps(recs[ln - 1])[:300]}", p)
    if v["drift"]:
        res.note(f"findRunnerToUnload chose another runner than SchedVictim.tla predicts in {len(v['drift'])} tables (model drift, not a verdict)")


def run(prop, tier="quick", seed=1, replay=None):
    t0 = time.time()
    res = vf.Result(prop)
    quick = tier == "quick"
    cov = dict(states=0, transitions=0, traces_validated_against_impl=0, samples=[], evaluations=0,
               distinct_nontrivial=0, configs=[])
    with vf.scratch(f"vf-{prop.lower()}-") as wd:
        vf.copy_specs(wd)
        with open(os.path.join(wd, "Sched.tla"), "a") as f:
            pass
        # Emit for generation lives in the MC wrapper (needs MaxHist)
        if replay:
            behaviours = [json.loads(l) for l in open(replay) if l.strip()]
        else:
            behaviours = []
            tid = 0
            for ci, c in enumerate(CONFIGS):
                mod = mc_module(wd, c)
                if (not quick) or ci == 0:
                    # design level: the repaired design satisfies every invariant (exhaustive, bounded)
                    small = dict(c)
                    cfg = vf.write_cfg(wd, f"MC_{mod}.cfg", consts(small, runner_ids=3 if ci == 0 else 3), MC_BODY)
                    r = vf.tlc(mod, cfg, wd, timeout=3000, heap="16g")
                    vf.tlc_must_pass(r, f"Sched design ({c['name']})")
                    cov["states"] += r["distinct"]
                    cov["transitions"] += r["generated"]
                    cov["configs"].append(dict(config=c["name"], distinct=r["distinct"], generated=r["generated"]))
                hist = 60
                cfg = vf.write_cfg(wd, f"Gen_{mod}.cfg", consts(c, maxhist=hist, runner_ids=4), GEN_BODY)
                hs, _ = vf.gen_simulate(mod, cfg, wd, num=120 if quick else 1500, depth=hist + 2, seed=seed * 10 + ci)
                # candidates printed at the length bound differ in their last step only: keep the common part
                hs = vf.dedupe([h[:-1] if len(h) >= hist else h for h in hs])
                import random
                rnd = random.Random(seed * 7 + ci)
                rnd.shuffle(hs)
                for h in hs[:(48 if quick else 1200)]:
                    tid += 1
                    hc = dict(name=c["name"], maxrunners=c["maxrunners"], queue=c["queue"], modelof=c["modelof"],
                              optof=c["optof"], keepof=c["keepof"], tinygpu=c["tinygpu"], noise=False,
                              twogpus=c.get("twogpus", False), parallel=c.get("parallel", 1))
                    behaviours.append(dict(t=tid, cfg=hc, hist=h, seed=seed * 1000 + tid))
                    if tid % 3 == 0:   # the same steps, free running with random delays at the gates
                        tid += 1
                        behaviours.append(dict(t=tid, cfg=dict(hc, noise=True), hist=h, seed=seed * 1000 + tid))
            behaviours += vf.load_witnesses("SCHED")
        recs, v, out = vf.replay_and_validate(wd, behaviours, "./server", "TestVFSchedReplay", ["server"], "Trace_Sched",
                                              go_timeout=3000, tlc_timeout=3000)
        traces = vf.split_traces(recs)
        beh = {str(b["t"]): b for b in behaviours}
        if not replay:
            model_conformance(wd, behaviours, traces, cov, res)
        cov["traces_validated_against_impl"] = len(traces)
        cov["evaluations"] = len(recs)
        nt = set()
        for _, tr in traces:
            evs = [r["ev"] for r in tr]
            if evs.count("close") >= 1 and evs.count("grant") >= 1 and evs.count("start") >= 2:
                nt.add(json.dumps([{k: r[k] for k in r if k not in ("t", "n")} for r in tr]))
        cov["distinct_nontrivial"] = len(nt)
        cov["rule"] = ("trace = facts recorded from one replayed behaviour; non-trivial = at least two runners were "
                       "started, one request was granted and one runner closed; distinct by recorded content")
        cov["samples"] = [tr[:12] for _, tr in traces[:2]]
        div = [r.get("diverged", 0) for r in recs if r["ev"] == "end"]
        cov["gate_steps_not_reached"] = sum(div)
        mine = FLAGS[prop]
        known = vf.load_findings(prop)
        shown, other = {}, {}
        seen_t = set()
        unconfirmed = []
        for ln, tid_s, flags in v["bad"]:
            fl = set(flags) & mine
            for f in set(flags) - mine:
                other[f] = other.get(f, 0) + 1
            if not fl or tid_s in seen_t:
                continue
            seen_t.add(tid_s)
            key = tuple(sorted(fl))
            shown[key] = shown.get(key, 0) + 1
            if shown[key] > 2 or len(res.violations) >= 8:
                continue
            b = beh.get(tid_s)
            # a verdict needs a behaviour that misbehaves again when it is run on its own (the gated schedule is deterministic;
            # quiescence windows are real time and the machine may be loaded): two more runs, at least one must show the flag again
            if b is not None and not replay and not confirmed(wd, b, fl, f"confirm-{tid_s}"):
                unconfirmed.append((tid_s, sorted(fl)))
                continue
            p = vf.save_replay(prop, f"sched-{tier}-{seed}-{tid_s}.ndjson", json.dumps(b) + "\n")
            res.violation(f"{sorted(fl)} (config {b['cfg']['name'] if b else '?'}{', noise' if b and b['cfg']['noise'] else ''}): "
                          f"{json.dumps(recs[ln - 1])[:300]}", p)
        cov["violating_traces"] = len(seen_t) - len(unconfirmed)
        cov["flagged_once_not_reproduced"] = [dict(t=t, flags=f) for t, f in unconfirmed]
        for t, f in unconfirmed[:4]:
            res.note(f"behaviour {t} showed {f} once and not in six isolated re-runs (timing of a loaded machine); not a verdict")
        cov["violation_kinds"] = {",".join(k): n for k, n in shown.items()}
        if other:
            res.note(f"flags of the sibling scheduler properties seen in this run (reported by their own checks): {other}")
        if prop == "C02" and not replay:
            handler_progress(wd, res, cov, seed, quick)
            liveness(wd, cov, quick)
        if prop == "C11" and not replay:
            victim_choice(wd, res, cov, quick)
        cov["checker_cmd"] = "tlc Sched.tla (MC per configuration) ; tlc Trace_Sched.tla"
    vf.write_evidence(prop, tier, seed, "model_checking", cov, time.time() - t0, violations=len(res.violations),
                      assumptions=["fake LlamaServers (load result, ping, Close controlled by the driver), one 'metal' GPU",
                                   "keep-alive 'short' = 8 ms real time; quiescence = all runners closed and table empty within 3 s",
                                   "forced order holds for the gated steps only; un-gated steps run freely in between",
                                   "schedules are sampled from the model's behaviours, not enumerated, on the real code"])
    return res.finish()

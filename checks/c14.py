"""C14 -- streamed text stops before stop sequences and is whole UTF-8.

StopCore.tla: the property as predicates + transcription of the stop/flush loop; Stop.tla enumerates
runs and TLC checks the transcription against the property; every run is executed on a real
ollamarunner.Server with a scripted model (token -> piece table); Trace_Stop.tla judges the streamed
chunks and finish reason.
"""
import json
import time

import vf

PROP = "C14"
MC_BODY = """
INIT Init
NEXT Next
INVARIANT Holds
CONSTRAINT Emit
CHECK_DEADLOCK FALSE
"""


def consts(alpha, pieces, plen, level, limits):
    return {"Alphabet": alpha, "MaxPieces": pieces, "MaxPieceLen": plen, "StopLevel": level, "Limits": limits,
            "Earliest": "TRUE"}


def run(tier="quick", seed=1, replay=None):
    t0 = time.time()
    res = vf.Result(PROP)
    quick = tier == "quick"
    cov = dict(states=0, transitions=0, traces_validated_against_impl=0, samples=[], evaluations=0,
               distinct_nontrivial=0, configs=[])
    with vf.scratch("vf-c14-") as wd:
        if replay:
            cases = [json.loads(l) for l in open(replay) if l.strip()]
        else:
            A5 = '{"a", "b", "c", "L2", "C"}'
            A6 = '{"a", "b", "c", "L2", "L3", "C"}'
            grid = [("3x2", consts(A5, 3, 2, 1, "{0, 1, 2}")), ("2x3", consts(A5, 2, 3, 1, "{0, 1, 2}")),
                    ("4x1", consts(A6, 4, 1, 1, "{0, 2, 3}"))] if quick else \
                   [("3x2", consts(A6, 3, 2, 2, "{0, 1, 2, 3}")), ("2x3", consts(A6, 2, 3, 2, "{0, 1, 2}")),
                    ("4x1", consts(A6, 4, 1, 2, "{0, 1, 2, 3, 4}"))]
            cases = []
            for name, c in grid:
                cfg = vf.write_cfg(wd, f"MC_Stop_{name}.cfg", c, MC_BODY)
                vals, r = vf.gen_exhaustive("Stop", cfg, wd, timeout=3000)
                cov["states"] += r["distinct"]
                cov["transitions"] += r["generated"]
                cov["configs"].append(dict(config=name, runs=r["distinct"]))
                cases += vals
            cov["exhaustive"] = True
            cases = vf.dedupe(cases)
            for i, c in enumerate(cases):
                c["id"] = i + 1
            cases += vf.load_witnesses(PROP)
        mapping_dirs = ["runner/ollamarunner", "model"]
        recs, v, _ = vf.replay_and_validate(wd, cases, "./runner/ollamarunner", "TestVFStopReplay", mapping_dirs, "Trace_Stop",
                                            shared=[("runner/ollamarunner", "ollamarunner", "vfbackend.go.tmpl")],
                                            go_timeout=2400, tlc_timeout=3000)
        by_id = {str(c["id"]): c for c in cases}
        cov["traces_validated_against_impl"] = len(recs)
        cov["evaluations"] = len(recs)
        cov["distinct_nontrivial"] = len({json.dumps([r["pieces"], r["stops"], r["limit"]]) for r in recs
                                          if sum(len(c) for c in r["chunks"]) < sum(len(p) for p in r["pieces"])})
        cov["rule"] = ("run = (pieces, stop list, limit); non-trivial = the streamed text is shorter than the generated "
                       "text (a stop, the limit or an incomplete character took effect); distinct by value")
        cov["samples"] = recs[:1] + recs[len(recs) // 2:len(recs) // 2 + 1] + recs[-1:]
        shown = {}
        for ln, cid, flags in v["bad"]:
            key = tuple(flags)
            shown[key] = shown.get(key, 0) + 1
            if shown[key] > 2 or len(res.violations) >= 8:
                continue
            p = vf.save_replay(PROP, f"stop-{tier}-{seed}-{cid}.ndjson", json.dumps(by_id.get(cid)) + "\n")
            res.violation(f"{flags}: {json.dumps(recs[ln - 1])[:500]}", p)
        cov["violating_runs"] = len(v["bad"])
        cov["violation_kinds"] = {",".join(k): n for k, n in shown.items()}
        cov["drift_runs"] = len(v["drift"])
        if v["drift"]:
            res.note(f"drift: {len(v['drift'])} runs differ from the transcribed loop without breaking C14")
        cov["checker_cmd"] = "tlc Stop.tla (MC per piece geometry) ; tlc Trace_Stop.tla"
    vf.write_evidence(PROP, tier, seed, "model_checking", cov, time.time() - t0, violations=len(res.violations),
                      assumptions=["stop strings are non-empty valid UTF-8", "the generated text as a whole is valid UTF-8 (pieces split it anywhere)",
                                   "byte classes a b c / 2- and 3-byte characters stand for all text",
                                   "runner/llamarunner has the same loop but needs llama.cpp: only the shared helpers in runner/common are covered for it"])
    return res.finish()

-------------------------------- MODULE Trace_Ps --------------------------------
(* C15 -- the list of running models never reports a runner that has already been *)
(* torn down.  Records carry a logical clock: start(r, model, c) when a runner is  *)
(* created, close(r, c) when its Close() begins, ps(b, e, models) with the clock   *)
(* before the request was sent and after the answer arrived.  Every model in a     *)
(* list must have had a runner that was started before the answer arrived and was  *)
(* not yet being closed when the request was sent.                                 *)
EXTENDS Integers, Sequences, FiniteSets, TLC, Json, IOUtils

VARIABLES l, nbad
Trace == ndJsonDeserialize(IOEnv.VF_TRACE)
Idx(ev) == {i \in 1..Len(Trace) : Trace[i].ev = ev}
Starts == Idx("start")
Closes == Idx("close")
Init == l = 1 /\ nbad = 0

LiveDuring(m, p) ==
  \E s \in Starts : /\ Trace[s].t = p.t /\ Trace[s].model = m /\ Trace[s].c < p.e
                    /\ ~\E k \in Closes : Trace[k].t = p.t /\ Trace[k].r = Trace[s].r /\ Trace[k].c < p.b

Step ==
  /\ l <= Len(Trace) /\ l' = l + 1
  /\ LET e == Trace[l]
         flags == IF e.ev = "ps" /\ e.code = 200 /\ \E i \in 1..Len(e.models) : ~LiveDuring(e.models[i], e)
                    THEN {"ps-lists-a-runner-already-torn-down"}
                  ELSE {}
     IN /\ (flags # {}) => PrintT(<<"VFBAD", l, e.t, flags>>)
        /\ nbad' = IF flags # {} THEN nbad + 1 ELSE nbad
Accepted == TLCGet("stats").diameter = Len(Trace) + 1
===============================================================================

//go:build verif

package server

// /verif harness for C17: the same model output, split into runner chunks in every enumerated way
// (and optionally failing after chunk k), is requested through the real handlers in eight
// presentations: native chat / generate and OpenAI-compatible chat / completions, each streamed and
// not streamed.  What each presentation delivered (text, tool calls, finish reason, token counts,
// number of final and error messages) is recorded for specs/Trace_Stream.tla.

import (
	"bufio"
	"bytes"
	"context"
	"encoding/json"
	"errors"
	"fmt"
	"os"
	"strings"
	"testing"

	"github.com/ollama/ollama/api"
	"github.com/ollama/ollama/llm"
)

type vfStreamCase struct {
	Id     int       `json:"id"`
	Atoms  []string  `json:"atoms"`
	Chunks [][][]int `json:"chunks"` // chunks of pieces <<k, n>>
	Tools  bool      `json:"tools"`
	Fail   int       `json:"fail"` // the runner fails after this many chunks; -1 = never; -2 = after its final record
	Reason string    `json:"reason"` // done reason of the runner's final record: "" = stop, "length"
}

var vfPieceText = map[[2]int]string{
	{1, 1}: `{"name":"f1",`, {1, 2}: `"arguments":{"a":`, {1, 3}: `1}}`,
	{2, 1}: `{"name":"f2",`, {2, 2}: `"arguments":{"b":`, {2, 3}: `2}}`,
	{0, 1}: "hello ", {0, 2}: "big ", {0, 3}: "world ",
}

type vfObs struct {
	Text   string   `json:"text"`
	Calls  []string `json:"calls"`
	Finish string   `json:"finish"`
	Prompt int      `json:"prompt"`
	Eval   int      `json:"eval"`
	Finals int      `json:"finals"`
	Errors int      `json:"errors"`
	Status int      `json:"status"`
}

func vfTools() []api.Tool {
	var tools []api.Tool
	for _, n := range []string{"f1", "f2"} {
		var t api.Tool
		t.Type = "function"
		t.Function.Name = n
		t.Function.Description = "test function"
		t.Function.Parameters.Type = "object"
		tools = append(tools, t)
	}
	return tools
}

func vfNativeChat(v *vfSrv, stream, tools bool) vfObs {
	req := api.ChatRequest{Model: "m1", Messages: []api.Message{{Role: "user", Content: "hi"}}, Stream: &stream}
	if tools {
		req.Tools = vfTools()
	}
	code, body, _ := v.do("POST", "/api/chat", req)
	o := vfObs{Status: code, Calls: []string{}}
	for _, line := range bytes.Split(body, []byte("\n")) {
		if len(bytes.TrimSpace(line)) == 0 {
			continue
		}
		var probe map[string]any
		if json.Unmarshal(line, &probe) != nil {
			o.Errors++
			continue
		}
		if _, isErr := probe["error"]; isErr {
			o.Errors++
			continue
		}
		var r api.ChatResponse
		json.Unmarshal(line, &r)
		o.Text += r.Message.Content
		for _, tc := range r.Message.ToolCalls {
			o.Calls = append(o.Calls, tc.Function.Name)
		}
		if r.Done {
			o.Finals++
			o.Finish, o.Prompt, o.Eval = r.DoneReason, r.PromptEvalCount, r.EvalCount
		}
	}
	return o
}

func vfNativeGenerate(v *vfSrv, stream bool) vfObs {
	code, body, _ := v.do("POST", "/api/generate", api.GenerateRequest{Model: "m1", Prompt: "hi", Stream: &stream})
	o := vfObs{Status: code, Calls: []string{}}
	for _, line := range bytes.Split(body, []byte("\n")) {
		if len(bytes.TrimSpace(line)) == 0 {
			continue
		}
		var probe map[string]any
		if json.Unmarshal(line, &probe) != nil {
			o.Errors++
			continue
		}
		if _, isErr := probe["error"]; isErr {
			o.Errors++
			continue
		}
		var r api.GenerateResponse
		json.Unmarshal(line, &r)
		o.Text += r.Response
		if r.Done {
			o.Finals++
			o.Finish, o.Prompt, o.Eval = r.DoneReason, r.PromptEvalCount, r.EvalCount
		}
	}
	return o
}

// OpenAI-compatible endpoints: JSON when not streamed, server-sent events when streamed
func vfOpenAI(v *vfSrv, path string, stream, tools bool) vfObs {
	req := map[string]any{"model": "m1", "stream": stream}
	if strings.Contains(path, "chat") {
		req["messages"] = []map[string]any{{"role": "user", "content": "hi"}}
		if tools {
			req["tools"] = vfTools()
		}
	} else {
		req["prompt"] = "hi"
	}
	if stream {
		req["stream_options"] = map[string]any{"include_usage": true}
	}
	code, body, _ := v.do("POST", path, req)
	o := vfObs{Status: code, Calls: []string{}}
	take := func(m map[string]any) {
		if _, isErr := m["error"]; isErr {
			o.Errors++
			return
		}
		if u, ok := m["usage"].(map[string]any); ok {
			if p, ok := u["prompt_tokens"].(float64); ok && (p != 0 || u["completion_tokens"].(float64) != 0) {
				o.Prompt, o.Eval = int(p), int(u["completion_tokens"].(float64))
			}
		}
		chs, _ := m["choices"].([]any)
		for _, c := range chs {
			ch, _ := c.(map[string]any)
			if t, ok := ch["text"].(string); ok {
				o.Text += t
			}
			for _, k := range []string{"message", "delta"} {
				if msg, ok := ch[k].(map[string]any); ok {
					if t, ok := msg["content"].(string); ok {
						o.Text += t
					}
					if tcs, ok := msg["tool_calls"].([]any); ok {
						for _, tc := range tcs {
							if fn, ok := tc.(map[string]any)["function"].(map[string]any); ok {
								o.Calls = append(o.Calls, fmt.Sprint(fn["name"]))
							}
						}
					}
				}
			}
			if fr, ok := ch["finish_reason"].(string); ok && fr != "" {
				o.Finish = fr
				o.Finals++
			}
		}
	}
	if !stream {
		var m map[string]any
		if json.Unmarshal(body, &m) != nil {
			o.Errors++
			return o
		}
		take(m)
		return o
	}
	for _, line := range bytes.Split(body, []byte("\n")) {
		line = bytes.TrimSpace(line)
		if !bytes.HasPrefix(line, []byte("data:")) {
			if len(line) > 0 && line[0] == '{' { // an error object outside the event framing
				o.Errors++
			}
			continue
		}
		data := bytes.TrimSpace(bytes.TrimPrefix(line, []byte("data:")))
		if string(data) == "[DONE]" {
			continue
		}
		var m map[string]any
		if json.Unmarshal(data, &m) != nil {
			o.Errors++
			continue
		}
		take(m)
	}
	return o
}

func vfStreamRun(v *vfSrv, c vfStreamCase) map[string]any {
	chunks := make([]string, len(c.Chunks))
	for i, ch := range c.Chunks {
		for _, p := range ch {
			chunks[i] += vfPieceText[[2]int{p[0], p[1]}]
		}
	}
	v.mu.Lock()
	v.completion = func(ctx context.Context, req llm.CompletionRequest, fn func(llm.CompletionResponse)) error {
		for i, ch := range chunks {
			if c.Fail >= 0 && i >= c.Fail {
				return errors.New("vf: runner died")
			}
			fn(llm.CompletionResponse{Content: ch})
		}
		if c.Fail >= 0 {
			return errors.New("vf: runner died")
		}
		reason := llm.DoneReasonStop
		if c.Reason == "length" {
			reason = llm.DoneReasonLength
		}
		fn(llm.CompletionResponse{Done: true, DoneReason: reason, PromptEvalCount: 3, EvalCount: 5})
		return nil
	}
	v.mu.Unlock()
	v.tokenizeFail.Store(c.Fail == -2)
	defer v.tokenizeFail.Store(false)
	obs := map[string]vfObs{
		"chat_ns": vfNativeChat(v, false, c.Tools), "chat_s": vfNativeChat(v, true, c.Tools),
		"oai_ns": vfOpenAI(v, "/v1/chat/completions", false, c.Tools), "oai_s": vfOpenAI(v, "/v1/chat/completions", true, c.Tools),
	}
	if !c.Tools {
		obs["gen_ns"], obs["gen_s"] = vfNativeGenerate(v, false), vfNativeGenerate(v, true)
		obs["oaic_ns"], obs["oaic_s"] = vfOpenAI(v, "/v1/completions", false, false), vfOpenAI(v, "/v1/completions", true, false)
	}
	return map[string]any{"ev": "case", "id": c.Id, "atoms": c.Atoms, "chunks": c.Chunks, "tools": c.Tools, "fail": c.Fail, "obs": obs}
}

func TestVFStreamReplay(t *testing.T) {
	inPath, outPath := os.Getenv("VF_IN"), os.Getenv("VF_OUT")
	if inPath == "" || outPath == "" {
		t.Skip("VF_IN / VF_OUT not set")
	}
	in, err := os.Open(inPath)
	if err != nil {
		t.Fatal(err)
	}
	defer in.Close()
	out, err := os.Create(outPath)
	if err != nil {
		t.Fatal(err)
	}
	defer out.Close()
	w := bufio.NewWriterSize(out, 1<<20)
	defer w.Flush()
	enc := json.NewEncoder(w)
	t.Setenv("OLLAMA_KEEP_ALIVE", "10m")
	t.Setenv("OLLAMA_MAX_LOADED_MODELS", "2")
	v := vfNewSrv(0)
	defer v.close()
	if code, body := v.createModel("m1", 0, ""); code != 200 {
		t.Fatalf("create: %d %s", code, body)
	}
	sc := bufio.NewScanner(in)
	sc.Buffer(make([]byte, 1<<20), 1<<26)
	n := 0
	for sc.Scan() {
		var c vfStreamCase
		if err := json.Unmarshal(sc.Bytes(), &c); err != nil {
			t.Fatalf("bad case: %v", err)
		}
		enc.Encode(vfStreamRun(v, c))
		n++
	}
	fmt.Printf("VF replayed=%d\n", n)
}

------------------------------ MODULE ChatPrompt ------------------------------
(* C19 -- which messages (and images) of a conversation go into the prompt.    *)
(*                                                                            *)
(* Reference definition (the property) + transcription of the truncation loop  *)
(* of server/prompt.go (chatPrompt), model-checked against each other, + the   *)
(* generator of conversations for the replay harness.                         *)
(*                                                                            *)
(* A message is [role, len, imgs, ph]: len = words of content, imgs = number   *)
(* of images, ph = content carries one "[img]" placeholder.  Rendering cost is *)
(* additive: every rendered message costs its words (+1 for the role word in   *)
(* "messages"-style templates, +1 for a placeholder), every image of a         *)
(* rendered non-system-prefix message costs ImgCost tokens.                    *)
EXTENDS Integers, Sequences, FiniteSets, TLC, Json

CONSTANTS MaxMsgs, Kinds, Styles,
          CodeAsIs   \* TRUE: `system` left over from the last loop iteration (pinned code)

Roles == {"system", "user", "assistant"}
MsgOptions ==
  [role : {"system", "assistant"}, len : {1, 3}, imgs : {0}, ph : {FALSE}]
  \cup [role : {"user"}, len : {1, 3}, imgs : {0}, ph : {FALSE}]
  \cup [role : {"user"}, len : {1, 3}, imgs : {1, 2}, ph : BOOLEAN]

ImgCost(kind) == CASE kind = "vision" -> 768 [] kind = "mllama" -> 1 [] OTHER -> 0
\* "sysonce": a template that prints .System once and skips system entries of .Messages (no role word for them)
Cost(m, style) == m.len + (IF style = "messages" \/ (style = "sysonce" /\ m.role # "system") THEN 1 ELSE 0) + (IF m.ph THEN 1 ELSE 0)

RECURSIVE SumOver(_, _, _)
SumOver(S, f(_), acc) == IF S = {} THEN acc
                         ELSE LET x == CHOOSE y \in S : TRUE IN SumOver(S \ {x}, f, acc + f(x))

SysBefore(msgs, i) == {j \in 1..(i - 1) : msgs[j].role = "system"}
\* tokens of the candidate "system messages before i, then messages i..n"
CandCost(msgs, i, kind, style) ==
  LET n == Len(msgs)
      C(j) == Cost(msgs[j], style)
      I(j) == ImgCost(kind) * msgs[j].imgs
  IN SumOver(SysBefore(msgs, i), C, 0) + SumOver(i..n, C, 0) + SumOver(i..n, I, 0)

\* ---------------------------------------------------------------- reference (the property)
\* the retained run starts at the smallest i such that every candidate from i to n-1 fits;
\* only the latest message if not even candidate n-1 fits
RefStart(msgs, limit, kind, style) ==
  LET n == Len(msgs)
      ok == {i \in 1..n : \A k \in i..(n - 1) : CandCost(msgs, k, kind, style) <= limit}
  IN CHOOSE i \in ok : \A o \in ok : i <= o
RefPrompt(msgs, limit, kind, style) ==
  LET s == RefStart(msgs, limit, kind, style) IN SysBefore(msgs, s) \cup s..Len(msgs)

\* ---------------------------------------------------------------- chatPrompt's loop, as written
\* returns <<n, system>>: first retained index and the system messages put in front
RECURSIVE Loop(_, _, _, _, _, _, _)
Loop(msgs, limit, kind, style, i, n, system) ==
  IF i < 1 THEN <<n, system>>
  ELSE LET sys == SysBefore(msgs, i) IN
       IF CandCost(msgs, i, kind, style) > limit THEN <<n, sys>>      \* break: `system` stays as computed for i
       ELSE Loop(msgs, limit, kind, style, i - 1, i, sys)
CodePrompt(msgs, limit, kind, style) ==
  LET N == Len(msgs)
      r == Loop(msgs, limit, kind, style, N - 1, N, {})
      system == IF CodeAsIs THEN r[2] ELSE SysBefore(msgs, r[1])     \* repaired: recomputed for the final cut
  IN system \cup r[1]..N

\* ---------------------------------------------------------------- generator / model
VARIABLES msgs, kind, style
vars == <<msgs, kind, style>>
Init == msgs = <<>> /\ kind \in Kinds /\ style \in Styles
Next == /\ Len(msgs) < MaxMsgs
        /\ \E m \in MsgOptions : msgs' = Append(msgs, m)
        /\ UNCHANGED <<kind, style>>
Spec == Init /\ [][Next]_vars

Thresholds == {0, 1000000} \cup UNION {{CandCost(msgs, i, kind, style), CandCost(msgs, i, kind, style) - 1} : i \in 1..Len(msgs)}
LoopMeetsReference ==
  msgs # <<>> => \A L \in Thresholds : CodePrompt(msgs, L, kind, style) = RefPrompt(msgs, L, kind, style)
LatestAlwaysIn ==
  msgs # <<>> => \A L \in Thresholds : Len(msgs) \in CodePrompt(msgs, L, kind, style)

Emit == (msgs # <<>>) => PrintT(ToJson([kind |-> kind, style |-> style, msgs |-> msgs]))
===============================================================================

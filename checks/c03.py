"""C03 -- a successful pull leaves exactly the published, digest-verified model.

Pull.tla models PullModel attempt by attempt over an abstract store (final / partial files, manifest)
with one fault alphabet per request class; TLC checks SuccessMeansComplete, NoBadBlobLeft,
NeverDangling and RetryCanSucceed on the design and enumerates fault scripts; a fake registry + CDN
plays every script against the real PullModel in child processes (a fault-free attempt is appended);
Trace_Pull.tla judges the store recorded after every attempt.
"""
import json
import random
import time

import vf

PROP = "C03"
MC_BODY = "INIT Init\nNEXT Next\nVIEW View\nINVARIANT SuccessMeansComplete\nINVARIANT NoBadBlobLeft\nINVARIANT NeverDangling\nINVARIANT RetryCanSucceed\nCHECK_DEADLOCK FALSE\n"
GEN_BODY = "INIT Init\nNEXT Next\nCONSTRAINT Emit\nCHECK_DEADLOCK FALSE\n"
ASIS = {"VerifyStopsAtFirst": "FALSE", "VerifyOnFailure": "FALSE", "DupOverwritesSkipVerify": "FALSE"}


def known_pull_finding(recs_of_script, findings):
    """unverified-blob-left-by-failed-attempt: at the first violating attempt every bad blob became bad in an EARLIER attempt
    that failed for another reason than a digest mismatch (it never reached the verification stage) and stayed in place since."""
    atts = [r for r in recs_of_script if r["ev"] == "attempt"]
    for i, r in enumerate(atts):
        viol = (r["err"] == "" and (r["man"] != "new" or any(x != "good" for x in r["final"]))) or \
               (r["man"] == "new" and any(x != "good" for x in r["final"]))
        if not viol:
            if r["man"] not in ("absent", "old", "new") or (r["man"] == "old" and not r["oldok"]) or (r["last"] and r["faults"] == 0 and r["err"]):
                return None
            continue
        if "unverified-blob-left-by-failed-attempt" not in findings or any(x == "absent" for x in r["final"]):
            return None
        for b, x in enumerate(r["final"]):
            if x != "bad":
                continue
            j = i
            while j > 0 and atts[j - 1]["final"][b] == "bad":
                j -= 1
            # atts[j] is the attempt in which the blob became bad
            # ... i.e. attempt j stopped before every layer was fetched (a layer is still missing after it)
            if j == i or atts[j]["err"] == "" or "digest mismatch" in atts[j]["err"] or not any(x == "absent" for x in atts[j]["final"]):
                return None
        return "unverified-blob-left-by-failed-attempt"
    return None


def run(tier="quick", seed=1, replay=None):
    t0 = time.time()
    res = vf.Result(PROP)
    quick = tier == "quick"
    cov = dict(states=0, transitions=0, traces_validated_against_impl=0, samples=[], evaluations=0, distinct_nontrivial=0)
    with vf.scratch("vf-c03-") as wd:
        if replay:
            scripts = [json.loads(l) for l in open(replay) if l.strip()]
        else:
            for pre in ("none", "old", "dup"):
                # the repaired design (every downloaded blob is verified, also when the attempt fails early) satisfies the invariants
                cfg = vf.write_cfg(wd, f"MC_Pull_{pre}.cfg", {"MaxAttempts": 2 if quick else 3, "MaxFaults": 2, "Pre": f'"{pre}"',
                                                              "VerifyStopsAtFirst": "FALSE", "VerifyOnFailure": "TRUE", "DupOverwritesSkipVerify": "FALSE"}, MC_BODY)
                r = vf.tlc("Pull", cfg, wd, timeout=3000)
                vf.tlc_must_pass(r, f"Pull.tla invariants (repaired design, pre={pre})")
                cov["states"] += r["distinct"]
                cov["transitions"] += r["generated"]
            # the code as it is: the design-level counterexample of the known finding is expected (it is not a verdict)
            cfg = vf.write_cfg(wd, "MC_Pull_asis.cfg", {"MaxAttempts": 2, "MaxFaults": 2, "Pre": '"none"', **ASIS}, MC_BODY)
            r = vf.tlc("Pull", cfg, wd, timeout=3000)
            if "Invariant NoBadBlobLeft is violated" not in r["out"] and "Invariant SuccessMeansComplete is violated" not in r["out"]:
                raise vf.Inconclusive("Pull.tla (code as is) no longer shows the design-level counterexample:\n" + r["out"][-1500:])
            # single-fault attempts exhaustively (one attempt), two-attempt / two-fault scripts sampled
            cfg = vf.write_cfg(wd, "Gen_Pull1.cfg", {"MaxAttempts": 1, "MaxFaults": 1, "Pre": '"none"', **ASIS}, GEN_BODY)
            singles, _ = vf.gen_exhaustive("Pull", cfg, wd)
            cfg = vf.write_cfg(wd, "Gen_Pull2.cfg", {"MaxAttempts": 2, "MaxFaults": 2, "Pre": '"none"', **ASIS}, GEN_BODY)
            doubles, _ = vf.gen_simulate("Pull", cfg, wd, num=4 if quick else 60, depth=4, seed=seed)
            if not quick:     # three faulty attempts, up to three faults each
                cfg = vf.write_cfg(wd, "Gen_Pull3.cfg", {"MaxAttempts": 3, "MaxFaults": 3, "Pre": '"none"', **ASIS}, GEN_BODY)
                triples, _ = vf.gen_simulate("Pull", cfg, wd, num=40, depth=5, seed=seed + 17)
                doubles = doubles + triples
            rnd = random.Random(seed)
            singles = vf.dedupe(singles)
            doubles = vf.dedupe(doubles)
            rnd.shuffle(doubles)
            pick = singles + doubles[:(16 if quick else 1800)]
            scripts = []
            for i, h in enumerate(pick):
                atts = [sorted(a, key=lambda x: (x["slot"], x["b"])) for a in h] + [[]]     # + a fault-free retry
                scripts.append(dict(t=i + 1, pre="old" if i % 4 == 3 else ("dup" if i % 4 == 1 else "none"), attempts=atts))
            # two overlapping pulls that share every layer: the second joins the downloads of the first
            t0s = len(scripts)
            twins = [[]] + [[dict(slot="ca", b=b, f=f)] for b in (1, 2, 3) for f in ("flip", "trunc1")]
            for k, first in enumerate(twins):
                scripts.append(dict(t=t0s + k + 1, pre="twin", attempts=[first, []]))
            # a corrupted download whose caller goes away when the verification stage starts, then a fault-free retry
            t0s = len(scripts)
            for b in (1, 2, 3):
                scripts.append(dict(t=t0s + b, pre="none", attempts=[[dict(slot="ca", b=b, f="flip"), dict(slot="v", b=0, f="cancel")], []]))
            scripts += vf.load_witnesses(PROP)
            cov["bounds"] = f"{len(singles)} single-fault attempts exhaustively, {len(pick) - len(singles)} two-attempt scripts with <= 2 faults each sampled; every script ends with a fault-free attempt"
        recs, v, _ = vf.replay_and_validate(wd, scripts, "./server", "TestVFPullReplay", ["server"], "Trace_Pull",
                                            go_timeout=5400, tlc_timeout=3000,
                                            trace_constants="CONSTANTS VerifyStopsAtFirst = FALSE VerifyOnFailure = FALSE DupOverwritesSkipVerify = FALSE\n")
        findings = {f["id"]: f for f in vf.load_findings(PROP)}
        recs_by_t = {}
        for r in recs:
            recs_by_t.setdefault(str(r["t"]), []).append(r)
        kf_hits = {}
        if any(r["ev"] == "harness" for r in recs):
            raise vf.Inconclusive("pull harness: " + json.dumps([r for r in recs if r["ev"] == "harness"][:2]))
        by_t = {str(s["t"]): s for s in scripts}
        atts = [r for r in recs if r["ev"] == "attempt"]
        cov["traces_validated_against_impl"] = len({r["t"] for r in recs})
        cov["evaluations"] = len(atts)
        cov["distinct_nontrivial"] = len({json.dumps(by_t[str(r["t"])]["attempts"]) for r in atts if r["faults"] > 0 and r["err"] != ""})
        cov["rule"] = "script = sequence of attempts with faults; non-trivial = a faulty attempt really failed; distinct by script"
        cov["attempt_outcomes"] = {"ok": sum(1 for r in atts if r["err"] == ""), "failed": sum(1 for r in atts if r["err"] != ""),
                                   "crashed": sum(1 for r in recs if r["ev"] == "crash")}
        cov["samples"] = atts[:2] + [scripts[0]]
        shown = {}
        seen_t = set()
        for ln, tid, flags in v["bad"]:
            if tid in seen_t:
                continue
            seen_t.add(tid)
            kf = known_pull_finding(recs_by_t[tid], findings)
            if kf:
                kf_hits[kf] = kf_hits.get(kf, 0) + 1
                continue
            key = tuple(flags)
            shown[key] = shown.get(key, 0) + 1
            if shown[key] > 3 or len(res.violations) >= 9:
                continue
            p = vf.save_replay(PROP, f"pull-{tier}-{seed}-{tid}.ndjson", json.dumps(by_t.get(tid)) + "\n")
            res.violation(f"{flags} for script {json.dumps(by_t.get(tid, {}).get('attempts'))[:300]}: {json.dumps(recs[ln - 1])[:400]}", p)
        for kf, n in kf_hits.items():
            res.known_finding(f"{findings[kf]['what']} ({n} scripts)")
        cov["known_finding_scripts"] = kf_hits
        drift_kinds = {}
        for ln, tid, flags in v["drift"]:
            for fl in flags:
                drift_kinds[fl] = drift_kinds.get(fl, 0) + 1
        cov["model_drift"] = drift_kinds
        for k, n in list(drift_kinds.items())[:5]:
            res.note(f"model drift: {k} on {n} attempts")
        cov["violating_scripts"] = len(seen_t) - sum(kf_hits.values())
        cov["violation_kinds"] = {",".join(k): n for k, n in shown.items()}
        cov["checker_cmd"] = "tlc Pull.tla (MC, pre=none|old) ; tlc Trace_Pull.tla"
    vf.write_evidence(PROP, tier, seed, "model_checking", cov, time.time() - t0, violations=len(res.violations),
                      assumptions=["three small single-part blobs; multi-part layouts (>100 MB or pre-seeded part files) are not exercised",
                                   "self-consistent manifests (size field = blob length) except for the empty-digest fault",
                                   "stalls (30 s) and caller cancellation are not scripted; every chunk attempt costs >= 1 s of real time"])
    return res.finish()

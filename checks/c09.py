"""C09 -- registry client: success means every layer verified; manifest committed last.

Pull: RegistryPullCore.tla / RegistryPull.tla model Registry.Pull attempt by attempt over one cache
(chunk plan of the big layer, one fault alphabet per request class, size-based cache hit, byte-count
completeness, chunk markers); TLC checks PullSuccessComplete, LinkAfterLayers and FailedPullNoLink on
the design (they fail for the code as it is: two counterexamples, and hold for the repaired design)
and enumerates scripts; a scripted registry plays every script against the real Registry.Pull and
Trace_RegistryPull.tla judges the cache recorded after every attempt.
Push: Push.tla models both push implementations request by request; the scripted registries record
what had been accepted when the manifest PUT arrived; Trace_Push.tla judges.
"""
import json
import random
import time

import vf

PROP = "C09"
MC = ("INIT Init\nNEXT Next\nVIEW View\nINVARIANT PullSuccessComplete\nINVARIANT LinkAfterLayers\nPROPERTY FailedPullNoLink\nCHECK_DEADLOCK FALSE\n")
GEN = "INIT Init\nNEXT Next\nCONSTRAINT Emit\nCHECK_DEADLOCK FALSE\n"
TRACE_CFG = "CONSTANTS U = 4 TrustSize = TRUE CountOnly = FALSE StaleMarkers = TRUE\n" + vf.TRACE_CFG


def known_pull_finding(script, recs_of_script, findings):
    """-> id of the known finding that explains the first violating attempt of the script, or None"""
    for r in recs_of_script:
        if r["ev"] != "attempt":
            continue
        complete = all(u == "good" for u in r["big"]) and r["small"]["s"] == "good" and r["small"]["c"] == "good"
        if r["err"] == "" and not complete or (r["link"] == "new" and not complete):
            asked_list = any(q.startswith("chunksums") for q in r["reqs"])
            asked_big = any(q.startswith("blobs b") for q in r["reqs"])
            small_ok = r["small"]["s"] == "good" and r["small"]["c"] == "good"
            if (not asked_list and not asked_big and r["lenbytes"] == 16 and small_ok and "sparse-layer-file-trusted-by-size" in findings):
                return "sparse-layer-file-trusted-by-size"
            # a marker covers a unit that is not good, the list was asked for (the layer was not trusted by size), nothing is
            # missing beyond the end of the file, and an earlier attempt had a corrupted chunk body under another plan
            bad_units = [u + 1 for u, x in enumerate(r["big"]) if x != "good"]
            covered = all(any(m[0] <= u <= m[1] for m in r["markers"]) for u in bad_units)
            earlier = [a for a in recs_of_script if a["ev"] == "attempt" and a["i"] < r["i"]]
            corrupt_before = any(f["f"] == "corrupt1" and f["slot"] == "b" and a["plan"] != r["plan"] for a in earlier for f in a["faults"])
            if (asked_list and small_ok and bad_units and covered and corrupt_before and all(x != "beyond" for x in r["big"])
                    and "stale-chunk-marker-after-overlapping-write" in findings):
                return "stale-chunk-marker-after-overlapping-write"
            return None
    return None


def pull_scripts(wd, quick, seed, cov):
    for ts, co in ((True, False), (False, False)):
        cfg = vf.write_cfg(wd, f"MC_RP_{int(ts)}{int(co)}.cfg", {"U": 4, "MaxAttempts": 2 if quick else 3, "MaxFaults": 2, "TrustSize": vf.tla_bool(ts),
                                                               "CountOnly": vf.tla_bool(co), "StaleMarkers": vf.tla_bool(ts), "Pre": '"none"'}, MC)
        r = vf.tlc("RegistryPull", cfg, wd, timeout=3000)
        if ts:      # the code as it is: the design-level counterexample is expected (known finding), not a verdict
            if "Invariant PullSuccessComplete is violated" not in r["out"] and "Invariant LinkAfterLayers is violated" not in r["out"]:
                raise vf.Inconclusive("RegistryPull.tla (TrustSize) no longer shows the design-level counterexample:\n" + r["out"][-1500:])
        else:
            vf.tlc_must_pass(r, "RegistryPull.tla invariants (repaired design)")
            cov["states"] += r["distinct"]
            cov["transitions"] += r["generated"]
    cfg = vf.write_cfg(wd, "Gen_RP1.cfg", {"U": 4, "MaxAttempts": 1, "MaxFaults": 1, "TrustSize": "TRUE", "CountOnly": "FALSE", "StaleMarkers": "TRUE", "Pre": '"none"'}, GEN)
    singles, _ = vf.gen_exhaustive("RegistryPull", cfg, wd)
    cfg = vf.write_cfg(wd, "Gen_RP2.cfg", {"U": 4, "MaxAttempts": 2, "MaxFaults": 2, "TrustSize": "TRUE", "CountOnly": "FALSE", "StaleMarkers": "TRUE", "Pre": '"none"'}, GEN)
    doubles, _ = vf.gen_simulate("RegistryPull", cfg, wd, num=60 if quick else 2500, depth=4, seed=seed)
    if not quick:     # three faulty attempts (the stale-marker finding needs three attempts under two plans)
        cfg = vf.write_cfg(wd, "Gen_RP3.cfg", {"U": 4, "MaxAttempts": 3, "MaxFaults": 2, "TrustSize": "TRUE", "CountOnly": "FALSE", "StaleMarkers": "TRUE", "Pre": '"none"'}, GEN)
        triples, _ = vf.gen_simulate("RegistryPull", cfg, wd, num=2500, depth=5, seed=seed + 31)
        doubles = doubles + triples
    singles, doubles = vf.dedupe(singles), vf.dedupe(doubles)
    rnd = random.Random(seed)
    rnd.shuffle(doubles)
    pick = singles + doubles[:(40 if quick else 4000)]
    scripts = []
    for i, h in enumerate(pick):
        atts = []
        for a in h:
            atts.append(dict(plan=a["plan"], faults=sorted(a["faults"], key=lambda x: (x["slot"], x["k"])), streams=rnd.choice([1, 2, 3]),
                             rank=rnd.sample(range(4), 4)))
        # a fault-free attempt at the end: same plan, or another one
        last = atts[-1]["plan"] if i % 3 else rnd.choice([[[1, 2], [3, 4]], [[1, 1], [2, 4]], [[1, 3], [4, 4]], [[1, 1], [2, 2], [3, 4]]])
        atts.append(dict(plan=last, faults=[], streams=rnd.choice([1, 2, 3]), rank=rnd.sample(range(4), 4)))
        scripts.append(dict(t=i + 1, pre="old" if i % 4 == 3 else "none", attempts=atts))
    cov["pull_bounds"] = f"{len(singles)} single-fault attempts (every plan x every fault) exhaustively, {len(pick) - len(singles)} sampled two-attempt scripts with <= 2 faults each; every script ends with a fault-free attempt; MaxStreams and completion ranks random per attempt"
    return scripts


PUSH_MC = "INIT Init\nNEXT Next\nVIEW View\nINVARIANT PushManifestLast\nINVARIANT SuccessMeansCommitted\nINVARIANT AgreesWithCore\nCHECK_DEADLOCK FALSE\n"
PUSH_GEN = "INIT Init\nNEXT Next\nCONSTRAINT Emit\nCHECK_DEADLOCK FALSE\n"


def push_part(wd, impl, quick, seed, cov, res, replay_scripts=None):
    """scripts from Push.tla -> real push implementation -> Trace_Push"""
    nl = 2 if impl == "new" else 3
    consts = {"Impl": f'"{impl}"', "NL": nl, "MaxFaults": 2}
    if replay_scripts is None:
        r = vf.tlc("Push", vf.write_cfg(wd, f"MC_Push_{impl}.cfg", consts, PUSH_MC), wd, timeout=1800)
        vf.tlc_must_pass(r, f"Push.tla invariants ({impl})")
        cov["states"] += r["distinct"]
        cov["transitions"] += r["generated"]
        allf, _ = vf.gen_exhaustive("Push", vf.write_cfg(wd, f"Gen_Push_{impl}.cfg", consts, PUSH_GEN), wd)
        allf = vf.dedupe([sorted(x, key=lambda y: (y["slot"], y["b"])) for x in allf])
        if impl == "legacy":
            # a request refused on all six tries costs 63 s: quick keeps the single-fault ones, thorough all (they run concurrently)
            slow = [x for x in allf if any(y["f"] == "failall" for y in x)]
            fast = [x for x in allf if x not in slow]
            rnd = random.Random(seed)
            rnd.shuffle(fast)
            keep_slow = [x for x in slow if len(x) == 1] if quick else slow
            allf = [x for x in fast if len(x) <= 1] + fast[:(40 if quick else 10**6)] + keep_slow
            allf = vf.dedupe(allf)
        scripts = [dict(t=i + 1, faults=x) for i, x in enumerate(allf)]
    else:
        scripts = replay_scripts
    inp, trace = f"{wd}/push_{impl}.ndjson", f"{wd}/trace_push_{impl}.ndjson"
    with open(inp, "w") as f:
        for s in scripts:
            f.write(json.dumps(s) + "\n")
    pkg, test, dirs = (("./server/internal/client/ollama", "TestVFRegistryPushReplay", ["server/internal/client/ollama"]) if impl == "new"
                       else ("./server", "TestVFLegacyPushReplay", ["server"]))
    rc, out = vf.go_test2(pkg, f"^{test}$", wd, vf.harness_overlay(dirs), env=dict(VF_IN=inp, VF_OUT=trace), timeout=3000)
    if rc != 0 or "VF replayed=" not in out:
        raise vf.Inconclusive(f"harness {test} failed:\n" + out[-3000:])
    with open(f"{wd}/Trace_Push_{impl}.cfg", "w") as f:
        f.write(f'CONSTANTS Impl = "{impl}" NL = {nl}\n' + vf.TRACE_CFG)
    v = vf.validate_trace("Trace_Push", f"Trace_Push_{impl}.cfg", trace, wd, timeout=1800)
    recs = vf.read_ndjson(trace)
    if any(r["ev"] == "harness" for r in recs):
        raise vf.Inconclusive("push harness: " + json.dumps([r for r in recs if r["ev"] == "harness"][:2]))
    by_t = {str(s["t"]): s for s in scripts}
    cov[f"push_{impl}"] = {"scripts": len(scripts), "ok": sum(1 for r in recs if r["err"] == ""), "failed": sum(1 for r in recs if r["err"] != ""),
                           "manifest_puts": sum(r["man_puts"] for r in recs), "drift_lines": len(v["drift"])}
    cov["evaluations"] += len(recs)
    cov["traces_validated_against_impl"] += len(recs)
    for ln, tid, flags in v["bad"][:6]:
        p = vf.save_replay(PROP, f"push-{impl}-{seed}-{tid}.ndjson", json.dumps(dict(impl=impl, **by_t[tid])) + "\n")
        res.violation(f"{flags} ({impl} push) for faults {json.dumps(by_t[tid]['faults'])}: {json.dumps({k: w for k, w in recs[ln - 1].items() if k != 'reqs'})[:400]}", p)
    for ln, tid, flags in v["drift"][:3]:
        res.note(f"model drift ({impl} push): {flags} for faults {json.dumps(by_t[tid]['faults'])}")
    return len(v["bad"])


def run(tier="quick", seed=1, replay=None):
    t0 = time.time()
    res = vf.Result(PROP)
    quick = tier == "quick"
    cov = dict(states=0, transitions=0, traces_validated_against_impl=0, samples=[], evaluations=0, distinct_nontrivial=0)
    findings = {f["id"]: f for f in vf.load_findings(PROP)}
    with vf.scratch("vf-c09-") as wd:
        nbad_push = 0
        if replay:
            scripts = [json.loads(l) for l in open(replay) if l.strip()]
            if scripts and "impl" in scripts[0]:
                nbad_push = push_part(wd, scripts[0]["impl"], quick, seed, cov, res, replay_scripts=scripts)
                vf.write_evidence(PROP, tier, seed, "model_checking", cov, time.time() - t0, violations=len(res.violations))
                return res.finish()
        else:
            import concurrent.futures as cf
            ex = cf.ThreadPoolExecutor(max_workers=2)
            futs = [ex.submit(push_part, wd, impl, quick, seed, cov, res) for impl in ("new", "legacy")]
        if replay:
            pass
        else:
            scripts = pull_scripts(wd, quick, seed, cov)
            scripts += [w for w in vf.load_witnesses(PROP) if "attempts" in w]
        with open(f"{wd}/Trace_RegistryPull.cfg", "w") as f:
            f.write(TRACE_CFG)
        inp, trace = f"{wd}/cases.ndjson", f"{wd}/trace.ndjson"
        with open(inp, "w") as f:
            for s in scripts:
                f.write(json.dumps(s) + "\n")
        rc, out = vf.go_test2("./server/internal/client/ollama", "^TestVFRegistryPullReplay$", wd,
                              vf.harness_overlay(["server/internal/client/ollama"]), env=dict(VF_IN=inp, VF_OUT=trace), timeout=3000)
        if rc != 0 or "VF replayed=" not in out:
            raise vf.Inconclusive("harness TestVFRegistryPullReplay failed:\n" + out[-3000:])
        v = vf.validate_trace("Trace_RegistryPull", "Trace_RegistryPull.cfg", trace, wd, timeout=3000)
        recs = vf.read_ndjson(trace)
        if any(r["ev"] == "harness" for r in recs):
            raise vf.Inconclusive("pull harness: " + json.dumps([r for r in recs if r["ev"] == "harness"][:2]))
        by_t = {str(s["t"]): s for s in scripts}
        recs_by_t = {}
        for r in recs:
            recs_by_t.setdefault(str(r["t"]), []).append(r)
        atts = [r for r in recs if r["ev"] == "attempt"]
        cov["traces_validated_against_impl"] = len(recs_by_t)
        cov["evaluations"] = len(atts)
        cov["distinct_nontrivial"] = len({json.dumps([a["plan"], a["faults"]]) for a in atts if a["faults"] and a["err"] != ""})
        cov["pull_attempt_outcomes"] = {"ok": sum(1 for r in atts if r["err"] == ""), "failed": sum(1 for r in atts if r["err"] != "")}
        cov["samples"] = atts[:2]
        seen_t, shown, kf_hits = set(), {}, {}
        for ln, tid, flags in v["bad"]:
            if tid in seen_t:
                continue
            seen_t.add(tid)
            kf = known_pull_finding(by_t[tid], recs_by_t[tid], findings)
            if kf:
                kf_hits[kf] = kf_hits.get(kf, 0) + 1
                continue
            key = tuple(flags)
            shown[key] = shown.get(key, 0) + 1
            if shown[key] > 3 or len(res.violations) >= 9:
                continue
            p = vf.save_replay(PROP, f"pull-{tier}-{seed}-{tid}.ndjson", json.dumps(by_t[tid]) + "\n")
            res.violation(f"{flags} for script {json.dumps(by_t[tid]['attempts'])[:400]}: {json.dumps({k: w for k, w in recs[ln - 1].items() if k != 'reqs'})[:500]}", p)
        for kf, n in kf_hits.items():
            res.known_finding(f"{findings[kf]['what']} ({n} scripts)")
        cov["known_finding_scripts"] = kf_hits
        cov["violating_scripts"] = len(seen_t) - sum(kf_hits.values())
        drift_kinds = {}
        for ln, tid, flags in v["drift"]:
            for fl in flags:
                drift_kinds[fl] = drift_kinds.get(fl, 0) + 1
        cov["model_drift"] = drift_kinds
        for k, n in list(drift_kinds.items())[:5]:
            res.note(f"model drift: {k} on {n} attempts")
        if not replay:
            for fu in futs:
                nbad_push += fu.result()
        cov["checker_cmd"] = "tlc RegistryPull.tla (MC as-is / repaired) ; tlc Trace_RegistryPull.tla ; tlc Push.tla (new, legacy) ; tlc Trace_Push.tla"
    vf.write_evidence(PROP, tier, seed, "model_checking", cov, time.time() - t0, violations=len(res.violations),
                      assumptions=["one big layer of 4 units in 2-3 chunks, two one-chunk layers; chunk digests in the list are honest",
                                   "completion order is varied by response delays, not enumerated",
                                   "the retry loop of registry.Local.handlePull is represented by repeated Pull calls on the same cache"])
    return res.finish()

--------------------------------- MODULE Pull ---------------------------------
(* C03 -- the state machine TLC explores over PullCore: a sequence of pull      *)
(* attempts for the same name, each with a fault script.                         *)
EXTENDS PullCore

CONSTANTS MaxAttempts, MaxFaults, Pre     \* Pre: "none" | "old" (an older version of the model is installed) | "dup" (the manifest lists a layer twice)
Pairs == UNION {{<<s, x>> : x \in FaultsOf(s)} : s \in Slots}
FaultSets == {F \in UNION {kSubset(k, Pairs) : k \in 0..MaxFaults} : \A p, q \in F : p[1] = q[1] => p = q}
Script(F) == [s \in Slots |-> IF \E p \in F : p[1] = s THEN (CHOOSE p \in F : p[1] = s)[2] ELSE "ok"]
Scripts == {Script(F) : F \in FaultSets}


VARIABLES final, part, man, attempts, outcomes, hist
vars == <<final, part, man, attempts, outcomes, hist>>
Init == /\ final = [b \in Blobs |-> "absent"] /\ part = [b \in Blobs |-> NoPart]
        /\ man = (IF Pre = "old" THEN "old" ELSE "absent")
        /\ attempts = 0 /\ outcomes = <<>> /\ hist = <<>>

Attempt(f) ==
  /\ attempts < MaxAttempts
  /\ attempts' = attempts + 1
  /\ hist' = Append(hist, {[slot |-> s[1], b |-> s[2], f |-> f[s]] : s \in {x \in Slots : f[x] # "ok"}})
  /\ LET r == AttemptResult([final |-> final, part |-> part, man |-> man], f, Pre = "dup") IN
       /\ final' = r.final /\ part' = r.part /\ man' = r.man /\ outcomes' = Append(outcomes, r.outcome)
Next == \E f \in Scripts : Attempt(f)
Spec == Init /\ [][Next]_vars

\* ---------------------------------------------------------------- the property, on the design
\* a reported success means every blob is there and right, and the new manifest is stored
SuccessMeansComplete == (outcomes # <<>> /\ outcomes[Len(outcomes)] = "ok") => (man = "new" /\ \A b \in Blobs : final[b] = "good")
\* no verified-away or never-verified bad blob stays at its final name between attempts
NoBadBlobLeft == \A b \in Blobs : final[b] # "bad"
\* the name resolves to the new manifest only when everything it names is right
NeverDangling == man = "new" => \A b \in Blobs : final[b] = "good"
\* whatever happened before, an attempt without faults succeeds
RetryCanSucceed ==
  LET st == Fetch([final |-> final, part |-> part, fetched |-> {}, failed |-> FALSE], CleanScript, Pre = "dup")
  IN ~st.failed /\ \A b \in Blobs : st.final[b] = "good"

Emit == (attempts = MaxAttempts) => PrintT(ToJson(hist))
View == <<final, part, man, attempts, outcomes>>
===============================================================================

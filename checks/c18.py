"""C18 -- the sampler returns an admissible token, reproducibly under a seed.

Sampler.tla: sample/samplers.go as a state machine over *effective weights* (SamplerCore.tla: exact
integer arithmetic for the sets top-k / top-p / min-p define), model-checked against the closed
definitions, + generator of cases.  harness/sample runs every case through the real Sampler (injected
draws, seeded samplers, reused samplers); Trace_Sampler.tla judges the returned tokens.
"""
import json
import time
import zlib

import vf

PROP = "C18"
MC_BODY = """
INIT Init
NEXT Next
INVARIANT NonEmpty
INVARIANT StagesMeetDefinition
INVARIANT ReturnsAdmissible
INVARIANT ErrorOnlyWithoutFiniteLogit
INVARIANT LookupInside
CONSTRAINT Emit
CHECK_DEADLOCK FALSE
"""
GEN_BODY = """
INIT Init
NEXT Next
CONSTRAINT Emit
CHECK_DEADLOCK FALSE
"""
SIM_BODY = GEN_BODY.replace("INIT Init", "INIT InitGrow").replace("NEXT Next", "NEXT NextGrow")
TEMPS = ["1", "0.5", "2", "0.8", "0.0000001", "1e-40", "100", "0.01"]
OFFS = [0.0, 0.0, 100.0, -100.0, 8.0]
JS = [0, 1, 7, 16, 31, 32, 33, 48, 63, 64]
SEEDS = [0, 1, 42, -2, 1 << 40]
RSEEDS = [7, 0, -2, -123456789, 1 << 40, 1]
KNOWN_FLAG = "error-on-overflow"


def h(c):
    return zlib.crc32(json.dumps(c, sort_keys=True).encode())


def dress(c, mode, i):
    x = h(c)
    d = dict(id=f"{mode}{i}", mode=mode, k=c["k"], pn=c["pn"], mn=c["mn"], tmode=c["tmode"], js=JS, seeds=SEEDS,
             rseed=RSEEDS[(x >> 3) % len(RSEEDS)])
    d["w" if mode == "w" else "o"] = c["w"]
    if c["tmode"] == "pos":
        d["T"] = TEMPS[x % len(TEMPS)] if mode == "w" else ["1", "0.5", "2", "1e-40"][x % 4]
    else:
        d["T"] = "0" if c["tmode"] == "zero" else "-1"
    # a common offset only where float32 still resolves the differences between the logits
    d["off"] = OFFS[(x >> 8) % len(OFFS)] if mode == "w" and d["T"] in ("1", "0.5", "2", "0.8", "100", "0", "-1") else 0.0
    return d


def run(tier="quick", seed=1, replay=None):
    t0 = time.time()
    res = vf.Result(PROP)
    quick = tier == "quick"
    cov = dict(states=0, transitions=0, traces_validated_against_impl=0, samples=[], evaluations=0, distinct_nontrivial=0)
    with vf.scratch("vf-c18-") as wd:
        base = {"TModes": '{"neg", "zero", "pos"}', "RDen": 16, "ClampArgs": "TRUE", "CrossingKept": "TRUE"}
        if replay:
            cases = [json.loads(l) for l in open(replay) if l.strip()]
        else:
            consts = dict(base, Weights="{0, 1, 2, 3, 8}", MaxN=3 if quick else 4, Ks="<- KsSmall", Ps="<- PsSmall", Ms="<- MsSmall")
            cfg = vf.write_cfg(wd, "MC_Sampler.cfg", consts, MC_BODY)
            vals, r = vf.gen_exhaustive("MC_Sampler", cfg, wd, timeout=3000)
            cov["states"], cov["transitions"] = r["distinct"], r["generated"]
            cov["exhaustive"] = True
            # the two design variants must be rejected (the switches are not decoration)
            for sw in ("ClampArgs", "CrossingKept"):
                c2 = vf.write_cfg(wd, f"MC_Sampler_{sw}.cfg", dict(consts, **{sw: "FALSE"}), MC_BODY.replace("CONSTRAINT Emit\n", ""))
                r2 = vf.tlc("MC_Sampler", c2, wd, timeout=1200, deadlock=False)
                if r2["timeout"] or "Invariant NonEmpty is violated" not in r2["out"]:
                    raise vf.Inconclusive(f"Sampler.tla with {sw}=FALSE was not rejected by TLC")
            cov["design_variants_rejected"] = ["ClampArgs=FALSE (min-p > 1 empties the list)", "CrossingKept=FALSE (top-p 0 empties the list)"]
            # magnitude classes: the same generator over ordinals 0..6
            consts_x = dict(base, Weights="{0, 1, 3, 5, 6}", MaxN=3, Ks="<- KsSmall", Ps="<- PsSmall", Ms="<- MsSmall")
            cfgx = vf.write_cfg(wd, "Gen_SamplerX.cfg", consts_x, GEN_BODY)
            valsx, _ = vf.gen_exhaustive("MC_Sampler", cfgx, wd, timeout=3000)
            consts_s = dict(base, Weights="{0, 1, 2, 3, 4, 5, 7, 9, 16, 50, 200}", MaxN=8, Ks="<- KsSim", Ps="<- PsSim", Ms="<- MsSim")
            cfgs = vf.write_cfg(wd, "Sim_Sampler.cfg", consts_s, SIM_BODY)
            sims, _ = vf.gen_simulate("MC_Sampler", cfgs, wd, num=3000 if quick else 60000, depth=11, seed=seed)
            vals, valsx, sims = vf.dedupe(vals), vf.dedupe(valsx), vf.dedupe(sims)
            if quick:
                vals = [c for c in vals if (h(c) + seed) % 3 == 0]
                valsx = [c for c in valsx if (h(c) + seed) % 10 == 0]
            cases = [dress(c, "w", i) for i, c in enumerate(vals + sims)] + [dress(c, "x", i) for i, c in enumerate(valsx)]
            cov["bounds"] = ("exhaustive: every vector of <= " + str(3 if quick else 4) + " effective weights from {0(-Inf),1,2,3,8} x top-k {-1,0,1,2,5} x top-p "
                             "{-0.5,0,0.3,0.5,0.9,1,1.5} x min-p {-0.1,0,0.1,0.5,1,2} x temperature {<0, 0, >0}"
                             + ("; a 1-in-3 sample of them is replayed in the quick tier" if quick else "; all replayed")
                             + "; simulated: vectors of <= 8 weights up to 200; magnitude classes -Inf, -3e38, 0, 3e38, +Inf; "
                             "per case 10 injected draws, 5 seeds, 3 reproducibility runs, 1 reused sampler")
            cases += vf.load_witnesses(PROP)
        recs, v, _ = vf.replay_and_validate(wd, cases, "./sample", "TestVFSamplerReplay", ["sample"], "Trace_Sampler", go_timeout=1800)
        by_id = {c["id"]: c for c in cases}
        cov["traces_validated_against_impl"] = len(recs)
        cov["evaluations"] = sum(len(r["draws"]) + len(r["pub"]) + len(r["seqA"]) * 3 + len(r["reuse"]) for r in recs)
        cov["distinct_nontrivial"] = len({json.dumps([r.get("w"), r.get("o"), r["k"], r["pn"], r["mn"]]) for r in recs
                                          if r["tmode"] == "pos" and len({d[1] for d in r["draws"]}) > 1})
        cov["rule"] = "record = one case; non-trivial = the injected draws returned at least two different tokens; distinct by value"
        cov["samples"] = recs[:1] + recs[len(recs) // 2:len(recs) // 2 + 1] + recs[-1:]
        shown, known = {}, 0
        for ln, rid, flags in v["bad"]:
            if KNOWN_FLAG in flags:
                known += 1
                flags = [f for f in flags if f != KNOWN_FLAG]
                if not flags:
                    continue
            key = tuple(flags)
            shown[key] = shown.get(key, 0) + 1
            if shown[key] > 2 or len(res.violations) >= 8:
                continue
            p = vf.save_replay(PROP, f"sampler-{tier}-{seed}-{rid}.ndjson", json.dumps(by_id.get(rid) or {}) + "\n")
            res.violation(f"{flags}: {json.dumps(recs[ln - 1])[:700]}", p)
        if known:
            f = [x for x in vf.load_findings(PROP) if x["id"] == "sample-error-when-scaled-logits-overflow"]
            if not f:
                raise vf.Inconclusive("known finding sample-error-when-scaled-logits-overflow is not listed")
            res.known_finding(f"{f[0]['id']}: {f[0]['what']} ({known} cases in this run)")
        cov["violating_records"] = len(v["bad"]) - known
        cov["known_finding_records"] = known
        cov["drift_records"] = len(v["drift"])
        if v["drift"]:
            res.note(f"{len(v['drift'])} records where the real sampler chose another position than Sampler.tla predicts (model drift, not a verdict): "
                     f"{v['drift'][:3]}")
        cov["violation_kinds"] = {",".join(k): n for k, n in shown.items()}
        cov["checker_cmd"] = "tlc MC_Sampler.tla (MC_Sampler.cfg, two rejected variants) ; tlc Trace_Sampler.tla"
    vf.write_evidence(PROP, tier, seed, "model_checking", cov, time.time() - t0, violations=len(res.violations),
                      assumptions=["logits are built from integer effective weights: logit = T*ln(w) + offset, so softmax probabilities are exact "
                                   "rationals in the model; thresholds are judged with a slack of 1/1000, i.e. a comparison that float32 could round "
                                   "either way never decides a verdict",
                                   "no grammar (the grammar sampler needs a llama.cpp vocabulary)", "no NaN logits",
                                   "vectors of at most 8 tokens (13 for the reused sampler)"])
    return res.finish()

-------------------------------- MODULE Trace_Pull --------------------------------
(* C03 -- judges the store after every pull attempt of every fault script           *)
(* (records from harness/server/vf_pull_test.go): final[b] is what is at the final   *)
(* name of published blob b (absent / good = right SHA-256 / bad), man is what the   *)
(* name resolves to (absent / old / new / torn).                                    *)
EXTENDS Integers, Sequences, FiniteSets, TLC, Json, IOUtils

VARIABLES l, nbad
Trace == ndJsonDeserialize(IOEnv.VF_TRACE)
Range(f) == {f[i] : i \in DOMAIN f}
Init == l = 1 /\ nbad = 0

Attempt(e) ==
     (IF e.err = "" /\ (e.man # "new" \/ Range(e.final) # {"good"}) THEN {"success-with-missing-or-corrupt-layer"} ELSE {})
\cup (IF e.man = "new" /\ Range(e.final) # {"good"} THEN {"name-resolves-to-incomplete-model"} ELSE {})
\cup (IF e.man = "torn" THEN {"name-resolves-to-unreadable-or-foreign-manifest"} ELSE {})
\cup (IF e.man = "old" /\ ~e.oldok THEN {"failed-pull-damaged-the-installed-version"} ELSE {})
\cup (IF e.last /\ e.faults = 0 /\ e.err # "" THEN {"fault-free-retry-does-not-succeed"} ELSE {})

Step == /\ l <= Len(Trace) /\ l' = l + 1
        /\ LET e == Trace[l]
               flags == IF e.ev = "attempt" THEN Attempt(e) ELSE IF e.ev = "crash" THEN {"registry-response-crashed-the-server"} ELSE {}
           IN /\ (flags # {}) => PrintT(<<"VFBAD", l, e.t, flags>>)
              /\ nbad' = IF flags # {} THEN nbad + 1 ELSE nbad
Accepted == TLCGet("stats").diameter = Len(Trace) + 1
===============================================================================
